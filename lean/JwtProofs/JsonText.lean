import JwtModel.Json
import JwtProofs.CodecInt
/-!
# Text level: `Json.parse (Json.render j) = some j`

For every JSON tree whose number literals are number literals (`WfJson`): what `json.Marshal` writes, `json.Unmarshal`
reads back as the same tree. Strings: every `Char` (a Unicode scalar value) survives Go's escaping
(`\"`, `\\`, `\n`, `\r`, `\t`, `\b`, `\f`, `\u00XX` for the other control characters and `<`, `>`, `&`,
` `, ` `).
-/
namespace Jwt.Json
open Jwt List

/-! ### hexadecimal escapes -/
theorem hexVal_hexDigitLower (d : Nat) (h : d < 16) : hexVal (hexDigitLower d) = some d := by
  have : d = 0 ∨ d = 1 ∨ d = 2 ∨ d = 3 ∨ d = 4 ∨ d = 5 ∨ d = 6 ∨ d = 7 ∨ d = 8 ∨ d = 9 ∨ d = 10 ∨ d = 11 ∨
      d = 12 ∨ d = 13 ∨ d = 14 ∨ d = 15 := by omega
  rcases this with h|h|h|h|h|h|h|h|h|h|h|h|h|h|h|h <;> subst h <;> decide

theorem hex4_u4 (n : Nat) (h : n < 65536) (r : Str) :
    hex4 ([hexDigitLower (n / 4096 % 16), hexDigitLower (n / 256 % 16), hexDigitLower (n / 16 % 16), hexDigitLower (n % 16)] ++ r)
      = some (n, r) := by
  simp only [cons_append, nil_append, hex4, bind, Option.bind,
    hexVal_hexDigitLower _ (Nat.mod_lt _ (by decide : 16 > 0))]
  simp only [pure, Option.some.injEq, Prod.mk.injEq, and_true]
  omega

/-! ### one character of a string literal -/
theorem parseStrBody_literal (f : Nat) (acc : Str) (c : Char) (rest : Str)
    (h1 : c ≠ '"') (h2 : c ≠ '\\') (h3 : ¬ c.toNat < 0x20) :
    parseStrBody (f+1) acc (c :: rest) = parseStrBody f (c :: acc) rest := by
  simp [parseStrBody, h1, h2, h3]

theorem parseStrBody_u4 (f : Nat) (acc : Str) (c : Char) (rest : Str)
    (hlt : c.toNat < 0xD800) :
    parseStrBody (f+1) acc (u4 c.toNat ++ rest) = parseStrBody f (c :: acc) rest := by
  have h16 : c.toNat < 65536 := by omega
  have hx := hex4_u4 c.toNat h16 rest
  simp only [cons_append, nil_append] at hx
  have hq : ('\\' : Char) ≠ '"' := by decide
  simp only [u4, cons_append, nil_append, parseStrBody, hq, if_false, if_true, hx]
  have a1 : ¬ (0xD800 ≤ c.toNat ∧ c.toNat < 0xDC00) := by omega
  have a2 : ¬ (0xDC00 ≤ c.toNat ∧ c.toNat < 0xE000) := by omega
  simp only [a1, a2, if_false]
  rw [Char.ofNat_toNat]

/-- **One character.** Whatever the character, the decoder consumes exactly its escape sequence in one step. -/
theorem parseStrBody_escChar (f : Nat) (acc : Str) (c : Char) (rest : Str) :
    parseStrBody (f+1) acc (escChar c ++ rest) = parseStrBody f (c :: acc) rest := by
  have hq : ('\\' : Char) ≠ '"' := by decide
  unfold escChar
  split
  · next h => subst h; simp [parseStrBody]
  split
  · next h => subst h; simp [parseStrBody]
  split
  · next h => subst h; simp [parseStrBody]
  split
  · next h => subst h; simp [parseStrBody]
  split
  · next h => subst h; simp [parseStrBody]
  split
  · next h => subst h; simp [parseStrBody]
  split
  · next h => subst h; simp [parseStrBody]
  split
  · next h => exact parseStrBody_u4 f acc c rest (by omega)
  split
  · next h =>
    apply parseStrBody_u4
    rcases h with h | h | h <;> subst h <;> decide
  split
  · next h => exact parseStrBody_u4 f acc c rest (by omega)
  · next h1 h2 h3 h4 h5 h6 h7 h8 h9 h10 =>
    exact parseStrBody_literal f acc c rest h1 h2 h8

/-- **A whole string literal.** -/
theorem parseStrBody_escStr : ∀ (s : Str) (f : Nat) (acc rest : Str), s.length + 1 ≤ f →
    parseStrBody f acc (escStr s ++ '"' :: rest) = some (acc.reverse ++ s, rest) := by
  intro s
  induction s with
  | nil =>
    intro f acc rest hf
    obtain ⟨f', rfl⟩ : ∃ f', f = f' + 1 := ⟨f - 1, by simp at hf; omega⟩
    simp [escStr, parseStrBody]
  | cons c s ih =>
    intro f acc rest hf
    obtain ⟨f', rfl⟩ : ∃ f', f = f' + 1 := ⟨f - 1, by simp at hf; omega⟩
    have : escStr (c :: s) ++ '"' :: rest = escChar c ++ (escStr s ++ '"' :: rest) := by
      simp [escStr, flatMap_cons, append_assoc]
    rw [this, parseStrBody_escChar, ih f' (c :: acc) rest (by simp at hf ⊢; omega)]
    simp

theorem escChar_length_pos (c : Char) : 1 ≤ (escChar c).length := by
  unfold escChar u4
  repeat' split
  all_goals simp

theorem escStr_length (s : Str) : s.length ≤ (escStr s).length := by
  induction s with
  | nil => simp [escStr]
  | cons c s ih =>
    have := escChar_length_pos c
    simp only [escStr, flatMap_cons, length_append, length_cons] at ih ⊢
    omega

/-! ### number literals -/
/-- what may follow a value in rendered JSON: nothing, or a separator / closing bracket -/
def Stop (rest : Str) : Prop := rest = [] ∨ ∃ c r, rest = c :: r ∧ (c = ',' ∨ c = ']' ∨ c = '}')

/-- a literal the number scanner reads back exactly, whatever separator follows -/
def NumOk (n : Str) : Prop := ∀ rest, Stop rest → parseNum (n ++ rest) = some (n, rest)

theorem stop_head_not_digit {rest : Str} (h : Stop rest) : ∀ c r, rest = c :: r → isDigit c = false ∧ c ≠ '.' ∧ c ≠ 'e' ∧ c ≠ 'E' := by
  intro c r e
  rcases h with h | ⟨c', r', h, hc⟩
  · rw [h] at e; cases e
  · rw [h] at e; injection e with e1 e2; subst e1
    rcases hc with rfl | rfl | rfl <;> decide

theorem takeWhile_append_stop (ds rest : Str) (hd : ds.all isDigit = true) (hr : ∀ c r, rest = c :: r → isDigit c = false) :
    (ds ++ rest).takeWhile isDigit = ds ∧ (ds ++ rest).dropWhile isDigit = rest := by
  induction ds with
  | nil =>
    cases rest with
    | nil => simp
    | cons c r => simp [takeWhile, dropWhile, hr c r rfl]
  | cons d ds ih =>
    simp only [all_cons, Bool.and_eq_true] at hd
    simp only [cons_append, takeWhile, dropWhile, hd.1]
    exact ⟨by rw [(ih hd.2).1], (ih hd.2).2⟩

theorem natToDigits_head : ∀ (f n : Nat), n < f → 0 < n →
    ∃ c cs, Codec.natToDigits f n = c :: cs ∧ c ≠ '0' ∧ isDigit c = true
  | 0, n, h, _ => by omega
  | f+1, n, h, hp => by
    unfold Codec.natToDigits
    by_cases h10 : n < 10
    · simp only [h10, if_true]
      refine ⟨_, [], rfl, ?_, Codec.digitChar_isDigit n h10⟩
      have : n = 1 ∨ n = 2 ∨ n = 3 ∨ n = 4 ∨ n = 5 ∨ n = 6 ∨ n = 7 ∨ n = 8 ∨ n = 9 := by omega
      rcases this with h|h|h|h|h|h|h|h|h <;> subst h <;> decide
    · simp only [h10, if_false]
      obtain ⟨c, cs, e, h1, h2⟩ := natToDigits_head f (n / 10) (by omega) (by omega)
      exact ⟨c, cs ++ [Char.ofNat (48 + n % 10)], by rw [e]; rfl, h1, h2⟩

theorem numInt_digits (c : Char) (cs rest : Str) (hc : c ≠ '0' ∨ cs = [])
    (hd : (c :: cs).all isDigit = true) (hs : Stop rest) :
    numInt ((c :: cs) ++ rest) = some (c :: cs, rest) := by
  have hnd := fun c r e => (stop_head_not_digit hs c r e).1
  have htw := takeWhile_append_stop (c :: cs) rest hd hnd
  simp only [all_cons, Bool.and_eq_true] at hd
  simp only [cons_append] at htw ⊢
  by_cases h0 : c = '0'
  · subst h0
    rcases hc with hc | hc
    · exact absurd rfl hc
    · subst hc; simp [numInt]
  · unfold numInt
    split
    · next r heq => injection heq with e1 e2; exact absurd e1 h0
    · next c' r' _ heq =>
      injection heq with e1 e2; subst e1
      simp only [hd.1, if_true, takeDigits, htw.1, htw.2]
    · next heq => cases heq

theorem numFrac_stop (rest : Str) (hs : Stop rest) : numFrac rest = some ([], rest) := by
  cases rest with
  | nil => rfl
  | cons x r =>
    have hx := (stop_head_not_digit hs x r rfl).2.1
    unfold numFrac
    split
    · next r' heq => injection heq with e1 e2; exact absurd e1 hx
    · rfl

theorem numExp_stop (rest : Str) (hs : Stop rest) : numExp rest = some ([], rest) := by
  cases rest with
  | nil => rfl
  | cons x r =>
    have := stop_head_not_digit hs x r rfl
    have hne : ¬ (x = 'e' ∨ x = 'E') := by rintro (y | y); exact this.2.2.1 y; exact this.2.2.2 y
    simp [numExp, hne]

theorem parseNum_plain (neg : Bool) (c : Char) (cs rest : Str) (hc : c ≠ '0' ∨ cs = [])
    (hd : (c :: cs).all isDigit = true) (hs : Stop rest) :
    parseNum ((if neg then ['-'] else []) ++ (c :: cs) ++ rest) = some ((if neg then ['-'] else []) ++ (c :: cs), rest) := by
  have hcm : c ≠ '-' := by
    intro e; subst e; simp [isDigit] at hd
  have hi := numInt_digits c cs rest hc hd hs
  cases neg
  · have hsg : numSign ((c :: cs) ++ rest) = ([], (c :: cs) ++ rest) := by
      simp only [cons_append]
      unfold numSign
      split
      · next r heq => injection heq with e1 e2; exact absurd e1 hcm
      · rfl
    simp only [Bool.false_eq_true, if_false, nil_append, parseNum, hsg, hi, numFrac_stop rest hs, numExp_stop rest hs, append_nil]
  · have hsg : numSign ('-' :: ((c :: cs) ++ rest)) = (['-'], (c :: cs) ++ rest) := rfl
    simp only [if_true, cons_append, nil_append] at hsg ⊢
    simp only [parseNum, hsg]
    simp only [cons_append] at hi
    simp only [hi, numFrac_stop rest hs, numExp_stop rest hs, append_nil]
    rfl

/-- **What the encoder writes for an integer is read back as that literal.** -/
theorem numOk_intToLit (i : Int) : NumOk (Codec.intToLit i) := by
  intro rest hs
  obtain ⟨_, hall, hne, _⟩ := Codec.natToDigits_spec (i.natAbs + 1) i.natAbs (by omega)
  have hshape : ∃ c cs, Codec.natToDigits (i.natAbs + 1) i.natAbs = c :: cs ∧ (c ≠ '0' ∨ cs = []) := by
    by_cases h0 : i.natAbs = 0
    · rw [h0]; exact ⟨'0', [], by simp [Codec.natToDigits], Or.inr rfl⟩
    · obtain ⟨c, cs, e, h1, _⟩ := natToDigits_head (i.natAbs + 1) i.natAbs (by omega) (by omega)
      exact ⟨c, cs, e, Or.inl h1⟩
  obtain ⟨c, cs, e, hc⟩ := hshape
  rw [e] at hall
  unfold Codec.intToLit
  by_cases hn : i < 0
  · simp only [hn, if_true, e]
    have := parseNum_plain true c cs rest hc hall hs
    simpa using this
  · simp only [hn, if_false, e]
    have := parseNum_plain false c cs rest hc hall hs
    simpa using this

/-! ### trees -/
mutual
/-- every number literal in the tree is one the scanner reads back (true of everything `marshal` emits and of
everything `parse` returns) -/
def WfJson : Json → Prop
  | .num n => NumOk n
  | .arr js => WfList js
  | .obj kv => WfMembers kv
  | _ => True
def WfList : List Json → Prop
  | [] => True
  | j :: js => WfJson j ∧ WfList js
def WfMembers : List (Str × Json) → Prop
  | [] => True
  | (_, j) :: kv => WfJson j ∧ WfMembers kv
end

theorem stop_renderTail (js : List Json) (rest : Str) : Stop (renderTail js ++ rest) := by
  cases js <;> simp [renderTail, Stop]

theorem stop_renderMembers (kv : List (Str × Json)) (rest : Str) : Stop (renderMembers kv ++ rest) := by
  cases kv with
  | nil => simp [renderMembers, Stop]
  | cons e kv => obtain ⟨k, j⟩ := e; simp [renderMembers, Stop]

theorem skipWs_cons (c : Char) (r : Str) (h : isWs c = false) : skipWs (c :: r) = c :: r := by
  simp [skipWs, dropWhile, h]

theorem quote_parse (s : Str) (rest : Str) :
    parseStrBody ((escStr s ++ '"' :: rest).length + 1) [] (escStr s ++ '"' :: rest) = some (s, rest) := by
  have := parseStrBody_escStr s ((escStr s ++ '"' :: rest).length + 1) [] rest (by
    have := escStr_length s; simp; omega)
  simpa using this

theorem parseNum_head (s n rest : Str) (h : parseNum s = some (n, rest)) :
    ∃ c r, s = c :: r ∧ (c = '-' ∨ isDigit c = true) := by
  cases s with
  | nil => simp [parseNum, numSign, numInt] at h
  | cons c r =>
    refine ⟨c, r, rfl, ?_⟩
    by_cases hm : c = '-'
    · exact Or.inl hm
    · right
      have hsg : numSign (c :: r) = ([], c :: r) := by
        unfold numSign
        split
        · next r' heq => injection heq with e1 e2; exact absurd e1 hm
        · rfl
      simp only [parseNum, hsg] at h
      by_cases h0 : c = '0'
      · subst h0; decide
      · cases hd : isDigit c with
        | true => rfl
        | false =>
          have : numInt (c :: r) = none := by
            unfold numInt
            split
            · next r' heq => injection heq with e1 e2; exact absurd e1 h0
            · next c' r' _ heq => injection heq with e1 e2; subst e1; simp [hd]
            · next heq => cases heq
          simp [this] at h

theorem numHead_props (c : Char) (h : c = '-' ∨ isDigit c = true) :
    isWs c = false ∧ c ≠ 'n' ∧ c ≠ 't' ∧ c ≠ 'f' ∧ c ≠ '"' ∧ c ≠ '[' ∧ c ≠ '{' ∧ c ≠ ']' ∧ c ≠ '}' := by
  rcases h with h | h
  · subst h; decide
  · have hr : '0' ≤ c ∧ c ≤ '9' := by simpa [isDigit] using h
    have h1 : 48 ≤ c.toNat := hr.1
    have h2 : c.toNat ≤ 57 := hr.2
    have ne : ∀ d : Char, (d.toNat < 48 ∨ 57 < d.toNat) → c ≠ d := by
      intro d hd e; subst e; omega
    refine ⟨?_, ne _ (by decide), ne _ (by decide), ne _ (by decide), ne _ (by decide), ne _ (by decide),
      ne _ (by decide), ne _ (by decide), ne _ (by decide)⟩
    simp only [isWs, Bool.or_eq_false_iff, decide_eq_false_iff_not]
    exact ⟨⟨⟨ne _ (by decide), ne _ (by decide)⟩, ne _ (by decide)⟩, ne _ (by decide)⟩

/-- the first character of a rendered value: never white space, never a closing bracket -/
theorem render_head (j : Json) (hw : WfJson j) : ∃ c r, render j = c :: r ∧ isWs c = false ∧ c ≠ ']' ∧ c ≠ '}' := by
  cases j with
  | null => exact ⟨'n', ['u', 'l', 'l'], rfl, by decide, by decide, by decide⟩
  | bool b => cases b
              · exact ⟨'f', ['a', 'l', 's', 'e'], rfl, by decide, by decide, by decide⟩
              · exact ⟨'t', ['r', 'u', 'e'], rfl, by decide, by decide, by decide⟩
  | num n =>
    simp only [WfJson] at hw
    have := hw [] (Or.inl rfl)
    simp only [append_nil] at this
    obtain ⟨c, r, e, hc⟩ := parseNum_head n n [] this
    have hp := numHead_props c hc
    exact ⟨c, r, by simp [render, e], hp.1, hp.2.2.2.2.2.2.2.1, hp.2.2.2.2.2.2.2.2⟩
  | str s => exact ⟨'"', _, rfl, by decide, by decide, by decide⟩
  | arr l => cases l with
    | nil => exact ⟨'[', _, rfl, by decide, by decide, by decide⟩
    | cons _ _ => exact ⟨'[', _, rfl, by decide, by decide, by decide⟩
  | obj kv => cases kv with
    | nil => exact ⟨'{', _, rfl, by decide, by decide, by decide⟩
    | cons e _ => obtain ⟨k, v⟩ := e; exact ⟨'{', _, rfl, by decide, by decide, by decide⟩

theorem skipWs_render (j : Json) (hw : WfJson j) (rest : Str) : skipWs (render j ++ rest) = render j ++ rest := by
  obtain ⟨c, r, e, h, _⟩ := render_head j hw
  rw [e]; exact skipWs_cons c (r ++ rest) h

mutual
/-- **Values.** -/
theorem parseValue_render : ∀ (j : Json) (f : Nat) (rest : Str), WfJson j → Stop rest → (render j).length + 1 ≤ f →
    parseValue f (render j ++ rest) = some (j, rest)
  | .null, f, rest, _, _, hf => by
    obtain ⟨f', rfl⟩ : ∃ f', f = f' + 1 := ⟨f - 1, by omega⟩
    show parseValue (f'+1) ('n' :: 'u' :: 'l' :: 'l' :: rest) = _
    simp [parseValue, skipWs, dropWhile, isWs]
  | .bool true, f, rest, _, _, hf => by
    obtain ⟨f', rfl⟩ : ∃ f', f = f' + 1 := ⟨f - 1, by omega⟩
    show parseValue (f'+1) ('t' :: 'r' :: 'u' :: 'e' :: rest) = _
    simp [parseValue, skipWs, dropWhile, isWs]
  | .bool false, f, rest, _, _, hf => by
    obtain ⟨f', rfl⟩ : ∃ f', f = f' + 1 := ⟨f - 1, by omega⟩
    show parseValue (f'+1) ('f' :: 'a' :: 'l' :: 's' :: 'e' :: rest) = _
    simp [parseValue, skipWs, dropWhile, isWs]
  | .num n, f, rest, hw, hs, hf => by
    obtain ⟨f', rfl⟩ : ∃ f', f = f' + 1 := ⟨f - 1, by omega⟩
    simp only [WfJson] at hw
    have hp := hw rest hs
    obtain ⟨c, r, e, hc⟩ := parseNum_head _ _ _ hp
    obtain ⟨h1, h2, h3, h4, h5, h6, h7, _, _⟩ := numHead_props c hc
    simp only [render]
    rw [e] at hp ⊢
    have hcc : (c = '-' ∨ isDigit c = true) := hc
    simp only [parseValue, skipWs_cons c r h1, h2, h3, h4, h5, h6, h7, if_false, hcc, if_true, hp]
  | .str s, f, rest, _, _, hf => by
    obtain ⟨f', rfl⟩ : ∃ f', f = f' + 1 := ⟨f - 1, by omega⟩
    have e : render (.str s) ++ rest = '"' :: (escStr s ++ '"' :: rest) := by
      simp [render, quote, append_assoc]
    rw [e]
    have hq := quote_parse s rest
    have hws : isWs '"' = false := by decide
    simp only [parseValue, skipWs_cons '"' _ hws, show ('"' : Char) ≠ 'n' from by decide,
      show ('"' : Char) ≠ 't' from by decide, show ('"' : Char) ≠ 'f' from by decide, if_false, if_true, hq]
  | .arr [], f, rest, _, _, hf => by
    obtain ⟨f', rfl⟩ : ∃ f', f = f' + 1 := ⟨f - 1, by omega⟩
    show parseValue (f'+1) ('[' :: ']' :: rest) = _
    simp [parseValue, skipWs, dropWhile, isWs]
  | .arr (j :: js), f, rest, hw, hs, hf => by
    obtain ⟨f', rfl⟩ : ∃ f', f = f' + 1 := ⟨f - 1, by omega⟩
    simp only [WfJson, WfList] at hw
    have e : render (.arr (j :: js)) ++ rest = '[' :: (render j ++ (renderTail js ++ rest)) := by
      simp [render, append_assoc]
    have hlen : (render (.arr (j :: js))).length = 1 + (render j).length + (renderTail js).length := by
      simp [render]; omega
    rw [e]
    obtain ⟨c, r, ej, hws, hnb, _⟩ := render_head j hw.1
    have h1 := parseValue_render j f' (renderTail js ++ rest) hw.1 (stop_renderTail js rest) (by omega)
    have h2 := parseTail_render js f' rest hw.2 (by omega)
    have hsk : skipWs (render j ++ (renderTail js ++ rest)) = c :: (r ++ (renderTail js ++ rest)) := by
      rw [ej]; exact skipWs_cons c _ hws
    have hws2 : isWs '[' = false := by decide
    simp only [parseValue, skipWs_cons '[' _ hws2]
    simp only [show ('[' : Char) ≠ 'n' from by decide, show ('[' : Char) ≠ 't' from by decide,
      show ('[' : Char) ≠ 'f' from by decide, show ('[' : Char) ≠ '"' from by decide, if_false, if_true, hsk]
    split
    · next r' heq => injection heq with e1 e2; exact absurd e1 hnb
    · simp only [h1, h2]
  | .obj [], f, rest, _, _, hf => by
    obtain ⟨f', rfl⟩ : ∃ f', f = f' + 1 := ⟨f - 1, by omega⟩
    show parseValue (f'+1) ('{' :: '}' :: rest) = _
    simp [parseValue, skipWs, dropWhile, isWs]
  | .obj ((k, j) :: kv), f, rest, hw, hs, hf => by
    obtain ⟨f', rfl⟩ : ∃ f', f = f' + 1 := ⟨f - 1, by omega⟩
    simp only [WfJson, WfMembers] at hw
    have e : render (.obj ((k, j) :: kv)) ++ rest =
        '{' :: '"' :: (escStr k ++ '"' :: ':' :: (render j ++ (renderMembers kv ++ rest))) := by
      simp [render, quote, append_assoc]
    have hlen : (render (.obj ((k, j) :: kv))).length =
        1 + (quote k).length + 1 + (render j).length + (renderMembers kv).length := by
      simp [render]; omega
    rw [e]
    have hq := quote_parse k (':' :: (render j ++ (renderMembers kv ++ rest)))
    have h1 := parseValue_render j f' (renderMembers kv ++ rest) hw.1 (stop_renderMembers kv rest) (by omega)
    have h2 := parseMembers_render kv f' rest hw.2 (by omega)
    have hws2 : isWs '{' = false := by decide
    have hws3 : isWs '"' = false := by decide
    have hws4 : isWs ':' = false := by decide
    simp only [parseValue, skipWs_cons '{' _ hws2]
    simp only [show ('{' : Char) ≠ 'n' from by decide, show ('{' : Char) ≠ 't' from by decide,
      show ('{' : Char) ≠ 'f' from by decide, show ('{' : Char) ≠ '"' from by decide,
      show ('{' : Char) ≠ '[' from by decide, if_false, if_true, skipWs_cons '"' _ hws3, hq,
      skipWs_cons ':' _ hws4, h1, h2]
theorem parseTail_render : ∀ (js : List Json) (f : Nat) (rest : Str), WfList js → (renderTail js).length + 1 ≤ f →
    parseTail f (renderTail js ++ rest) = some (js, rest)
  | [], f, rest, _, hf => by
    obtain ⟨f', rfl⟩ : ∃ f', f = f' + 1 := ⟨f - 1, by omega⟩
    show parseTail (f'+1) (']' :: rest) = _
    simp [parseTail, skipWs, dropWhile, isWs]
  | j :: js, f, rest, hw, hf => by
    obtain ⟨f', rfl⟩ : ∃ f', f = f' + 1 := ⟨f - 1, by omega⟩
    simp only [WfList] at hw
    have e : renderTail (j :: js) ++ rest = ',' :: (render j ++ (renderTail js ++ rest)) := by
      simp [renderTail, append_assoc]
    have hlen : (renderTail (j :: js)).length = 1 + (render j).length + (renderTail js).length := by
      simp [renderTail]; omega
    rw [e]
    have h1 := parseValue_render j f' (renderTail js ++ rest) hw.1 (stop_renderTail js rest) (by omega)
    have h2 := parseTail_render js f' rest hw.2 (by omega)
    have hws : isWs ',' = false := by decide
    simp only [parseTail, skipWs_cons ',' _ hws, h1, h2]
theorem parseMembers_render : ∀ (kv : List (Str × Json)) (f : Nat) (rest : Str), WfMembers kv →
    (renderMembers kv).length + 1 ≤ f → parseMembers f (renderMembers kv ++ rest) = some (kv, rest)
  | [], f, rest, _, hf => by
    obtain ⟨f', rfl⟩ : ∃ f', f = f' + 1 := ⟨f - 1, by omega⟩
    show parseMembers (f'+1) ('}' :: rest) = _
    simp [parseMembers, skipWs, dropWhile, isWs]
  | (k, j) :: kv, f, rest, hw, hf => by
    obtain ⟨f', rfl⟩ : ∃ f', f = f' + 1 := ⟨f - 1, by omega⟩
    simp only [WfMembers] at hw
    have e : renderMembers ((k, j) :: kv) ++ rest =
        ',' :: '"' :: (escStr k ++ '"' :: ':' :: (render j ++ (renderMembers kv ++ rest))) := by
      simp [renderMembers, quote, append_assoc]
    have hlen : (renderMembers ((k, j) :: kv)).length =
        1 + (quote k).length + 1 + (render j).length + (renderMembers kv).length := by
      simp [renderMembers]; omega
    rw [e]
    have hq := quote_parse k (':' :: (render j ++ (renderMembers kv ++ rest)))
    have h1 := parseValue_render j f' (renderMembers kv ++ rest) hw.1 (stop_renderMembers kv rest) (by omega)
    have h2 := parseMembers_render kv f' rest hw.2 (by omega)
    have hws : isWs ',' = false := by decide
    have hws3 : isWs '"' = false := by decide
    have hws4 : isWs ':' = false := by decide
    simp only [parseMembers, skipWs_cons ',' _ hws, skipWs_cons '"' _ hws3, hq, skipWs_cons ':' _ hws4, h1, h2]
end

/-- **Text level.** What `json.Marshal` writes for a tree, `json.Unmarshal`'s parser reads back as that tree. -/
theorem parse_render (j : Json) (hw : WfJson j) : parse (render j) = some j := by
  have := parseValue_render j ((render j).length + 2) [] hw (Or.inl rfl) (by omega)
  simp only [append_nil] at this
  simp [parse, this, skipWs]

end Jwt.Json
