import JwtModel.Base64
/-! base64url round trip (ported spike): `decode (encode bs) = some bs` for every byte list. -/
namespace Jwt.B64

theorem dec_enc : ∀ d : Fin 64, decChar (encChar d.1) = some d.1 := by decide +kernel

theorem de (n : Nat) (h : n < 64) : decChar (encChar n) = some n := dec_enc ⟨n, h⟩

theorem roundtrip : ∀ (bs : List Nat), (∀ b ∈ bs, b < 256) → decode (encode bs) = some bs
  | [], _ => by simp [encode, decode]
  | [a], h => by
      have ha := h a (by simp)
      simp only [encode, decode, de (a / 4) (by omega), de (a % 4 * 16) (by omega)]
      congr 2; omega
  | [a, b], h => by
      have ha := h a (by simp)
      have hb := h b (by simp)
      simp only [encode, decode, de (a / 4) (by omega), de (a % 4 * 16 + b / 16) (by omega), de (b % 16 * 4) (by omega)]
      congr 2
      · omega
      · congr 1; omega
  | a :: b :: c :: r, h => by
      have ha := h a (by simp)
      have hb := h b (by simp)
      have hc := h c (by simp)
      have ih := roundtrip r (fun x hx => h x (by simp [hx]))
      simp only [encode, decode, de (a / 4) (by omega), de (a % 4 * 16 + b / 16) (by omega),
        de (b % 16 * 4 + c / 64) (by omega), de (c % 64) (by omega), ih]
      congr 2
      · omega
      · congr 1
        · omega
        · congr 1; omega


end Jwt.B64
