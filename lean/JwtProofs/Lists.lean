import JwtModel.Lists
/-! C20 lemmas: Add/Remove/Contains refine the abstract insertion-ordered set, for any idempotent normaliser. -/
namespace Jwt.Lists
variable {α : Type} [DecidableEq α]

def Inv (norm : α → α) (empty : α) (l : List α) : Prop :=
  l.Nodup ∧ ∀ x ∈ l, norm x = x ∧ x ≠ empty

-- abstract ordered set over *normalised* elements
def sAdd (empty : α) (s : List α) (v : α) : List α := if v ∈ s ∨ v = empty then s else s ++ [v]
def sRemove (s : List α) (v : α) : List α := s.filter (· ≠ v)


variable (norm : α → α) (empty : α) (hid : ∀ x, norm (norm x) = norm x)
include hid

theorem add1_spec (l : List α) (p : α) : add1 norm empty l p = sAdd empty l (norm p) := by
  simp only [add1, sAdd, contains, hid]
  by_cases h1 : norm p ∈ l <;> by_cases h2 : norm p = empty <;> simp [h1, h2]

theorem add1_inv (l : List α) (p : α) (h : Inv norm empty l) : Inv norm empty (add1 norm empty l p) := by
  rw [add1_spec norm empty hid]
  simp only [sAdd]
  by_cases hc : norm p ∈ l ∨ norm p = empty
  · simp [hc, h]
  · simp only [hc, if_false]
    have hc' : norm p ∉ l ∧ norm p ≠ empty := by
      constructor
      · intro hm; exact hc (Or.inl hm)
      · intro he; exact hc (Or.inr he)
    constructor
    · rw [List.nodup_append]
      refine ⟨h.1, by simp, ?_⟩
      intro a ha b hb
      simp at hb; subst hb
      intro e; subst e; exact hc'.1 ha
    · intro x hx
      simp only [List.mem_append, List.mem_singleton] at hx
      rcases hx with hx | hx
      · exact h.2 x hx
      · subst hx; exact ⟨hid p, hc'.2⟩

omit hid in
theorem erase_eq_filter (l : List α) (v : α) (h : l.Nodup) : l.erase v = l.filter (· ≠ v) := by
  induction l with
  | nil => simp
  | cons a r ih =>
    simp only [List.nodup_cons] at h
    by_cases ha : a = v
    · subst ha
      have : r.filter (fun x => !decide (x = a)) = r := by
        apply List.filter_eq_self.mpr
        intro x hx; simp; intro e; subst e; exact h.1 hx
      simp [this]
    · have : (a == v) = false := by simpa using ha
      simp [List.erase_cons, this, ha, ih h.2]

omit hid in
theorem remove1_spec (l : List α) (p : α) (h : Inv norm empty l) : remove1 norm l p = sRemove l (norm p) := by
  simp only [remove1, sRemove]; exact erase_eq_filter l (norm p) h.1

omit hid in
theorem remove1_inv (l : List α) (p : α) (h : Inv norm empty l) : Inv norm empty (remove1 norm l p) := by
  rw [remove1_spec norm empty l p h]
  exact ⟨List.Nodup.sublist List.filter_sublist h.1, fun x hx => h.2 x (List.mem_filter.mp hx).1⟩

theorem contains_iff (l : List α) (p : α) : contains norm l p = true ↔ norm p ∈ l := by simp [contains]

def sStep (s : List α) : Op α → List α
  | .add p => sAdd empty s (norm p)
  | .remove p => sRemove s (norm p)

/-- C20: after ANY history from a normalised duplicate-free list (e.g. the empty one) the slice IS the abstract ordered set -/
theorem ordered_set (ops : List (Op α)) :
    ∀ l, Inv norm empty l →
      ops.foldl (step norm empty) l = ops.foldl (sStep norm empty) l ∧ Inv norm empty (ops.foldl (step norm empty) l) := by
  induction ops with
  | nil => intro l h; exact ⟨rfl, h⟩
  | cons op ops ih =>
    intro l h
    have hs : step norm empty l op = sStep norm empty l op := by
      cases op with
      | add p => exact add1_spec norm empty hid l p
      | remove p => exact remove1_spec norm empty l p h
    have hi : Inv norm empty (step norm empty l op) := by
      cases op with
      | add p => exact add1_inv norm empty hid l p h
      | remove p => exact remove1_inv norm empty l p h
    simp only [List.foldl_cons]
    rw [← hs]; exact ih _ hi

/-- the abstract set semantics: membership after add / remove -/
theorem mem_sAdd (s : List α) (v x : α) : x ∈ sAdd empty s v ↔ x ∈ s ∨ (x = v ∧ v ≠ empty) := by
  simp only [sAdd]
  by_cases h : v ∈ s ∨ v = empty
  · simp only [h, if_true]
    constructor
    · exact Or.inl
    · rintro (hx | ⟨hx, hv⟩)
      · exact hx
      · subst hx; rcases h with h | h
        · exact h
        · exact absurd h hv
  · simp only [h, if_false, List.mem_append, List.mem_singleton]
    constructor
    · rintro (hx | hx)
      · exact Or.inl hx
      · exact Or.inr ⟨hx, fun e => h (Or.inr e)⟩
    · rintro (hx | ⟨hx, _⟩)
      · exact Or.inl hx
      · exact Or.inr hx
omit hid in
theorem mem_sRemove (s : List α) (v x : α) : x ∈ sRemove s v ↔ x ∈ s ∧ x ≠ v := by
  simp [sRemove]


end Jwt.Lists
