import JwtModel.GoRt
import JwtProofs.Text
import JwtProofs.Utf8
/-!
# Lemmas about the run-time prelude of translated functions (`JwtModel/GoRt.lean`)

Indexing, slicing and the three loop shapes that occur in the translated functions:
* a *search* loop returns from the function at the first element satisfying a test;
* a *fold* loop updates its state at every element and never leaves early;
* everything else is proved by induction at the use site.
-/
namespace Jwt.GoRt

theorem idx_nat {α} (xs : List α) (i : Nat) : idx xs (i : Int) = xs[i]? := by
  simp [idx]; omega

theorem idx_zero {α} (xs : List α) : idx xs 0 = xs.head? := by
  have := idx_nat xs 0
  simpa [List.head?_eq_getElem?] using this

theorem idx_last {α} (xs : List α) (h : xs ≠ []) : idx xs (len xs - 1) = xs.getLast? := by
  cases xs with
  | nil => exact absurd rfl h
  | cons a l =>
    have : (len (a :: l) - 1 : Int) = (l.length : Nat) := by simp [len]
    rw [this, idx_nat]
    simp [List.getLast?_eq_getElem?]

theorem sliceTo_nat {α} (xs : List α) (i : Nat) (h : i ≤ xs.length) : sliceTo xs (i : Int) = some (xs.take i) := by
  simp [sliceTo, slice, len, h]

theorem sliceFrom_nat {α} (xs : List α) (i : Nat) (h : i ≤ xs.length) : sliceFrom xs (i : Int) = some (xs.drop i) := by
  simp [sliceFrom, slice, len, h]

/-- a loop whose body never fails and always continues is a left fold -/
theorem forRangeFrom_fold {α σ ρ : Type} (body : Int → α → σ → Option (Ctl σ ρ)) (f : σ → α → σ)
    (hb : ∀ i x s, body i x s = some (.next (f s x))) :
    ∀ (xs : List α) (i : Int) (s : σ), forRangeFrom body i xs s = some (.done (xs.foldl f s)) := by
  intro xs
  induction xs with
  | nil => intro i s; rfl
  | cons x xs ih => intro i s; simp [forRangeFrom, hb, ih]

/-- a fold whose step may fail (`none`) but never leaves the loop early -/
def foldlO {α σ : Type} (f : σ → α → Option σ) : σ → List α → Option σ
  | s, [] => some s
  | s, x :: xs => match f s x with | none => none | some s' => foldlO f s' xs

theorem forRangeFrom_foldO {α σ ρ : Type} (body : Int → α → σ → Option (Ctl σ ρ)) (f : σ → α → Option σ)
    (hb : ∀ i x s, body i x s = (f s x).map Ctl.next) :
    ∀ (xs : List α) (i : Int) (s : σ), forRangeFrom body i xs s = (foldlO f s xs).map Loop.done := by
  intro xs
  induction xs with
  | nil => intro i s; rfl
  | cons x xs ih =>
    intro i s
    simp only [forRangeFrom, hb, foldlO]
    cases f s x with
    | none => rfl
    | some s' => simp [ih]

theorem foldlO_some {α σ : Type} (f : σ → α → Option σ) (g : σ → α → σ) (h : ∀ s x, f s x = some (g s x)) :
    ∀ (xs : List α) (s : σ), foldlO f s xs = some (xs.foldl g s) := by
  intro xs
  induction xs with
  | nil => intro s; rfl
  | cons x xs ih => intro s; simp [foldlO, h, ih]

/-- a search loop: leave the function with `r` at the first element satisfying `p` -/
theorem forRangeFrom_search {α ρ : Type} (body : Int → α → Unit → Option (Ctl Unit ρ)) (p : α → Bool) (r : ρ)
    (hb : ∀ i x, body i x () = some (if p x then .ret r else .next ())) :
    ∀ (xs : List α) (i : Int), forRangeFrom body i xs () = some (if xs.any p then .ret r else .done ()) := by
  intro xs
  induction xs with
  | nil => intro i; rfl
  | cons x xs ih =>
    intro i
    by_cases hp : p x = true
    · simp [forRangeFrom, hb, hp]
    · simp only [Bool.not_eq_true] at hp
      simp [forRangeFrom, hb, hp, ih]

/-! ### strings as bytes: `strings.Contains` for one character, first and last byte -/


theorem contains_single (c : Char) (s : Str) : contains s [c] = s.any (· = c) := by
  unfold contains
  induction s with
  | nil => simp [isInfixB, isPrefixB]
  | cons a r ih =>
    simp only [isInfixB, ih, isPrefixB, List.any_cons, Bool.and_true]
    by_cases h : a = c
    · subst h; simp
    · have : ¬ c = a := fun e => h e.symm
      simp [h, this]

theorem encodeChar_cases (c : Char) :
    (c.toNat < 128 ∧ Utf8.encodeChar c = [c.toNat]) ∨
    (128 ≤ c.toNat ∧ ∃ b bs, Utf8.encodeChar c = b :: bs ∧ 192 ≤ b ∧ bs ≠ [] ∧ ∀ x ∈ bs, 128 ≤ x) := by
  unfold Utf8.encodeChar
  simp only
  by_cases h1 : c.toNat < 128
  · left; simp [h1]
  · right
    refine ⟨by omega, ?_⟩
    by_cases h2 : c.toNat < 2048
    · exact ⟨_, _, by simp [h1, h2]; exact ⟨rfl, rfl⟩, by omega, by simp, by simp⟩
    · by_cases h3 : c.toNat < 65536
      · exact ⟨_, _, by simp [h1, h2, h3]; exact ⟨rfl, rfl⟩, by omega, by simp, by simp⟩
      · exact ⟨_, _, by simp [h1, h2, h3]; exact ⟨rfl, rfl⟩, by omega, by simp, by simp⟩

theorem encodeChar_head (c : Char) : (Utf8.encodeChar c).head? = some 46 ↔ c = '.' := by
  rcases encodeChar_cases c with ⟨_, h⟩ | ⟨_, b, bs, h, hb, _, _⟩
  · rw [h]; simp
    constructor
    · intro e; exact char_eq_of_toNat (by simpa using e)
    · intro e; subst e; rfl
  · rw [h]; simp
    constructor
    · intro e; omega
    · intro e; subst e; simp [Char.toNat] at *

theorem encodeChar_last (c : Char) : (Utf8.encodeChar c).getLast? = some 46 ↔ c = '.' := by
  rcases encodeChar_cases c with ⟨_, h⟩ | ⟨h0, b, bs, h, hb, hne, hall⟩
  · rw [h]; simp
    constructor
    · intro e; exact char_eq_of_toNat (by simpa using e)
    · intro e; subst e; rfl
  · rw [h]
    constructor
    · intro e
      have : (b :: bs).getLast? = bs.getLast? := by
        cases bs with
        | nil => exact absurd rfl hne
        | cons x y => simp [List.getLast?_cons_cons]
      rw [this] at e
      have hm := List.mem_of_getLast? e
      have := hall _ hm
      omega
    · intro e; subst e; simp [Char.toNat] at h0


theorem utf8Width_eq (c : Char) : utf8Width c = (Utf8.encodeChar c).length := by
  unfold utf8Width Utf8.encodeChar
  simp only
  split <;> (try split) <;> (try split) <;> simp

theorem utf8Len_eq (s : Str) : utf8Len s = (Utf8.encode s).length := by
  induction s with
  | nil => rfl
  | cons c cs ih =>
    simp only [utf8Len, List.map_cons, List.sum_cons, Utf8.encode, List.flatMap_cons, List.length_append, utf8Width_eq] at ih ⊢
    omega

theorem encode_ne_nil (s : Str) (h : s ≠ []) : Utf8.encode s ≠ [] := by
  cases s with
  | nil => exact absurd rfl h
  | cons c cs =>
    rcases encodeChar_cases c with ⟨_, e⟩ | ⟨_, b, bs, e, _⟩ <;> simp [Utf8.encode, e]

theorem strByte_first (s : Str) (h : s ≠ []) :
    ∃ b, strByte s 0 = some b ∧ ((b == 46) = (s.head? == some '.')) := by
  cases s with
  | nil => exact absurd rfl h
  | cons c cs =>
    have hh : (Utf8.encode (c :: cs)).head? = (Utf8.encodeChar c).head? := by
      rcases encodeChar_cases c with ⟨_, e⟩ | ⟨_, b, bs, e, _⟩ <;> simp [Utf8.encode, e]
    have := encodeChar_head c
    cases hb : (Utf8.encodeChar c).head? with
    | none => rcases encodeChar_cases c with ⟨_, e⟩ | ⟨_, b, bs, e, _⟩ <;> simp [e] at hb
    | some b =>
      refine ⟨(b : Int), by simp [strByte, idx_zero, hh, hb], ?_⟩
      rw [hb] at this
      by_cases hc : c = '.'
      · have : b = 46 := by simpa using this.mpr hc
        subst this; simp [hc]
      · have hne : ¬ b = 46 := fun e => hc (this.mp (by rw [e]))
        have h46 : ¬ ((b : Int) = 46) := by omega
        simp only [List.head?_cons]
        rw [beq_eq_false_iff_ne.mpr h46]
        symm; simpa using hc

theorem strByte_last (s : Str) (h : s ≠ []) :
    ∃ b, strByte s (strLen s - 1) = some b ∧ ((b == 46) = (s.getLast? == some '.')) := by
  have hne := encode_ne_nil s h
  have hl : strByte s (strLen s - 1) = (Utf8.encode s).getLast?.map Int.ofNat := by
    have := idx_last (Utf8.encode s) hne
    simp only [strByte, strLen, utf8Len_eq, len] at this ⊢
    rw [this]
  obtain ⟨pre, c, rfl⟩ : ∃ pre c, s = pre ++ [c] := by
    refine ⟨s.dropLast, s.getLast h, ?_⟩; simp [List.dropLast_concat_getLast]
  have hh : (Utf8.encode (pre ++ [c])).getLast? = (Utf8.encodeChar c).getLast? := by
    have hne' : Utf8.encodeChar c ≠ [] := by
      rcases encodeChar_cases c with ⟨_, e⟩ | ⟨_, b, bs, e, _⟩ <;> simp [e]
    simp only [Utf8.encode, List.flatMap_append, List.flatMap_cons, List.flatMap_nil, List.append_nil]
    rw [List.getLast?_append]
    cases hx : (Utf8.encodeChar c).getLast? with
    | none => exact absurd (List.getLast?_eq_none_iff.mp hx) hne'
    | some v => rfl
  have := encodeChar_last c
  cases hb : (Utf8.encodeChar c).getLast? with
  | none => rcases encodeChar_cases c with ⟨_, e⟩ | ⟨_, b, bs, e, _⟩ <;> simp [e] at hb
  | some b =>
    refine ⟨(b : Int), by simp [hl, hh, hb], ?_⟩
    rw [hb] at this
    by_cases hc : c = '.'
    · have : b = 46 := by simpa using this.mpr hc
      subst this; simp [hc]
    · have hne : ¬ b = 46 := fun e => hc (this.mp (by rw [e]))
      have h46 : ¬ ((b : Int) = 46) := by omega
      rw [beq_eq_false_iff_ne.mpr h46]
      symm; simpa using hc


/-! ### first byte against an ASCII code, tail after an ASCII first character -/

theorem encodeChar_head_ascii (c : Char) (n : Nat) (hn : n < 128) :
    (Utf8.encodeChar c).head? = some n ↔ c.toNat = n := by
  rcases encodeChar_cases c with ⟨h0, h⟩ | ⟨h0, b, bs, h, hb, _, _⟩
  · rw [h]; simp
  · rw [h]; simp
    constructor
    · intro e; omega
    · intro e; omega

theorem strByte_first_ascii (c : Char) (cs : Str) (n : Nat) (hn : n < 128) :
    ∃ b, strByte (c :: cs) 0 = some b ∧ ((b == (n : Int)) = decide (c.toNat = n)) := by
  have hh : (Utf8.encode (c :: cs)).head? = (Utf8.encodeChar c).head? := by
    rcases encodeChar_cases c with ⟨_, e⟩ | ⟨_, b, bs, e, _⟩ <;> simp [Utf8.encode, e]
  have := encodeChar_head_ascii c n hn
  cases hb : (Utf8.encodeChar c).head? with
  | none => rcases encodeChar_cases c with ⟨_, e⟩ | ⟨_, b, bs, e, _⟩ <;> simp [e] at hb
  | some b =>
    refine ⟨(b : Int), by simp [strByte, idx_zero, hh, hb], ?_⟩
    rw [hb] at this
    by_cases hc : c.toNat = n
    · have : b = n := by simpa using this.mpr hc
      subst this; simp [hc]
    · have hne : ¬ b = n := fun e => hc (this.mp (by rw [e]))
      have h2 : ¬ ((b : Int) = (n : Int)) := by omega
      rw [beq_eq_false_iff_ne.mpr h2]
      simp [hc]

/-- `s[1:]` of a string whose first character is ASCII: the rest of the string -/
theorem strSliceFrom_one (c : Char) (cs : Str) (hc : c.toNat < 128) : strSliceFrom (c :: cs) 1 = some cs := by
  have he : Utf8.encode (c :: cs) = c.toNat :: Utf8.encode cs := by
    rcases encodeChar_cases c with ⟨_, e⟩ | ⟨h0, _⟩
    · simp [Utf8.encode, e]
    · omega
  have hlen : strLen (c :: cs) = ((Utf8.encode cs).length : Int) + 1 := by
    simp [strLen, utf8Len_eq, he]
  unfold strSliceFrom strSlice slice
  rw [hlen, he]
  have h1 : (0 : Int) ≤ 1 ∧ (1 : Int) ≤ ((Utf8.encode cs).length : Int) + 1 ∧
      ((Utf8.encode cs).length : Int) + 1 ≤ len (c.toNat :: Utf8.encode cs) := by
    simp [len]; omega
  rw [if_pos h1]
  have h2 : (((Utf8.encode cs).length : Int) + 1).toNat = (Utf8.encode cs).length + 1 := by omega
  simp [h2, Utf8.decode_encode]

end Jwt.GoRt
