import JwtModel.Overlay
import JwtProofs.CodecInt
import JwtProofs.Val
import Props.C13
/-!
# The generic codec round trip: `unmarshal (marshal v) = overlay v`
-/
namespace Jwt.Codec
open Jwt Jwt.Codec List

variable (env : CodecEnv)

/-! ### `canonAny` on leaves -/
@[simp] theorem canonAny_null (n : Nat) : canonAny n .null = .null := by cases n <;> rfl
@[simp] theorem canonAny_bool (n : Nat) (b : Bool) : canonAny n (.bool b) = .bool b := by cases n <;> rfl
@[simp] theorem canonAny_str (n : Nat) (s : Str) : canonAny n (.str s) = .str s := by cases n <;> rfl
@[simp] theorem canonAny_num (n : Nat) (s : Str) : canonAny n (.num s) = .num s := by cases n <;> rfl
@[simp] theorem canonAny_zero (j : Json) : canonAny 0 j = j := rfl

/-! ### association lists -/
theorem getField_eq_some_of_mem (fs : List (Str × Val)) (hnd : (fs.map (·.1)).Nodup) (k : Str) (v : Val)
    (h : (k, v) ∈ fs) : getField fs k = some v := by
  induction fs with
  | nil => cases h
  | cons x r ih =>
    obtain ⟨xk, xv⟩ := x
    simp only [map_cons, nodup_cons, mem_map, not_exists, not_and] at hnd
    simp only [mem_cons, Prod.mk.injEq] at h
    rcases h with ⟨rfl, rfl⟩ | h
    · simp [getField]
    · have hne : ¬ xk = k := fun e => hnd.1 (k, v) h e.symm
      have := ih hnd.2 h
      simp only [getField, find?_cons, hne, decide_false] at this ⊢
      exact this

theorem mem_of_getField (fs : List (Str × Val)) (k : Str) (v : Val) (h : getField fs k = some v) : (k, v) ∈ fs := by
  induction fs with
  | nil => simp [getField] at h
  | cons x r ih =>
    obtain ⟨xk, xv⟩ := x
    by_cases hk : xk = k
    · subst hk; simp [getField] at h; subst h; simp
    · simp only [getField, find?_cons, hk, decide_false] at h ih
      exact mem_cons_of_mem _ (ih h)

theorem getField_isSome_iff (fs : List (Str × Val)) (k : Str) : (getField fs k).isSome ↔ k ∈ fs.map (·.1) := by
  induction fs with
  | nil => simp [getField]
  | cons x r ih =>
    obtain ⟨xk, xv⟩ := x
    by_cases hk : xk = k
    · subst hk; simp [getField]
    · simp only [getField, find?_cons, hk, decide_false, map_cons, mem_cons] at ih ⊢
      rw [ih]; constructor
      · exact Or.inr
      · rintro (e | h); exact absurd e.symm hk; exact h

theorem fieldType_of_mem (fs : List (Str × Bool × Ty)) (hnd : (fs.map (·.1)).Nodup) (k : Str) (om : Bool) (t : Ty)
    (h : (k, om, t) ∈ fs) : fieldType fs k = some (om, t) := by
  induction fs with
  | nil => cases h
  | cons x r ih =>
    obtain ⟨xk, xo, xt⟩ := x
    simp only [map_cons, nodup_cons, mem_map, not_exists, not_and] at hnd
    simp only [mem_cons, Prod.mk.injEq] at h
    rcases h with ⟨rfl, rfl, rfl⟩ | h
    · simp [fieldType]
    · have hne : ¬ xk = k := fun e => hnd.1 (k, om, t) h e.symm
      have := ih hnd.2 h
      simp only [fieldType, find?_cons, hne, decide_false] at this ⊢
      exact this

theorem mem_of_fieldType (fs : List (Str × Bool × Ty)) (k : Str) (om : Bool) (t : Ty)
    (h : fieldType fs k = some (om, t)) : (k, om, t) ∈ fs := by
  induction fs with
  | nil => simp [fieldType] at h
  | cons x r ih =>
    obtain ⟨xk, xo, xt⟩ := x
    by_cases hk : xk = k
    · subst hk; simp [fieldType] at h; obtain ⟨rfl, rfl⟩ := h; simp
    · simp only [fieldType, find?_cons, hk, decide_false] at h ih
      exact mem_cons_of_mem _ (ih h)

theorem findField_of_mem (fs : List (Str × Bool × Ty)) (hnd : (fs.map (·.1)).Nodup) (k : Str) (om : Bool) (t : Ty)
    (h : (k, om, t) ∈ fs) : findField fs k = some (k, t) := by
  have := fieldType_of_mem fs hnd k om t h
  unfold fieldType at this
  unfold findField
  split at this
  · next a b c heq =>
    simp only [Option.some.injEq, Prod.mk.injEq] at this
    obtain ⟨rfl, rfl⟩ := this
    have hk := find?_some heq
    simp only [decide_eq_true_eq] at hk
    subst hk
    simp [heq]
  · cases this

/-! ### the struct decoder, independent of member order -/
theorem getField_setField_ne (fs : List (Str × Val)) (k k' : Str) (x : Val) (h : k' ≠ k) :
    getField (setField fs k x) k' = getField fs k' := by
  rw [getField_setField]; simp [h]

theorem setField_map (cur : List (Str × Val)) (k : Str) (r : Val) (g : Str × Val → Str × Val) :
    (setField cur k r).map g = cur.map (fun c => if c.1 = k then g (k, r) else g c) := by
  unfold setField
  rw [map_map]
  apply map_congr_left
  intro c _
  by_cases h : c.1 = k <;> simp [h]

/-- **Struct lemma.** If the members of a JSON object carry pairwise different keys, each key is a field of the
schema, and each member decodes (with any fuel from `G` on) into `res key`, the object decodes into the
target with exactly those fields replaced — whatever the order of the members. -/
theorem unmarshalFields_spec (allfs : List (Str × Bool × Ty)) (hnd : (allfs.map (·.1)).Nodup) (res : Str → Val) (G : Nat) :
    ∀ (kv : List (Str × Json)) (cur : List (Str × Val)) (F : Nat),
      (kv.map (·.1)).Nodup →
      (∀ e ∈ kv, ∃ om t b, (e.1, om, t) ∈ allfs ∧ getField cur e.1 = some b ∧
        ∀ F', G ≤ F' → unmarshal env F' t e.2 b = .ok (res e.1)) →
      G + kv.length + 1 ≤ F →
      unmarshalFields env F allfs kv cur =
        .ok (cur.map fun c => if c.1 ∈ kv.map (·.1) then (c.1, res c.1) else c) := by
  intro kv
  induction kv with
  | nil =>
    intro cur F _ _ hF
    obtain ⟨F', rfl⟩ : ∃ F', F = F' + 1 := ⟨F - 1, by omega⟩
    simp [unmarshalFields]
  | cons e kv ih =>
    intro cur F hkn hall hF
    obtain ⟨k, j⟩ := e
    obtain ⟨F', rfl⟩ : ∃ F', F = F' + 1 := ⟨F - 1, by omega⟩
    simp only [map_cons, nodup_cons] at hkn
    obtain ⟨om, t, b, hmem, hb, hun⟩ := hall (k, j) (by simp)
    have hff := findField_of_mem allfs hnd k om t hmem
    have hu := hun F' (by simp at hF; omega)
    simp only [unmarshalFields, hff, hb, hu, bind, Res.bind]
    rw [ih (setField cur k (res k)) F' hkn.2]
    · congr 1
      rw [setField_map]
      apply map_congr_left
      intro c _
      by_cases hc : c.1 = k
      · simp [hc, hkn.1]
      · simp only [hc, if_false, map_cons, mem_cons, false_or]
    · intro e he
      obtain ⟨om', t', b', hm', hb', hun'⟩ := hall e (mem_cons_of_mem _ he)
      have hne : e.1 ≠ k := by
        intro heq; apply hkn.1; rw [← heq]; exact mem_map_of_mem he
      exact ⟨om', t', b', hm', by rw [getField_setField_ne _ _ _ _ hne]; exact hb', hun'⟩
    · simp at hF ⊢; omega

/-! ### what `marshalFields` emits -/
theorem marshalFields_spec : ∀ (fs : List (Str × Bool × Ty)) (f : Nat) (vals : List (Str × Val)) (m : List (Str × Json)),
    marshalFields env f fs vals = .ok m →
      m.length ≤ fs.length ∧ (m.map (·.1)).Sublist (fs.map (·.1)) ∧
      (∀ e ∈ m, ∃ om t v f', f' < f ∧ (e.1, om, t) ∈ fs ∧ getField vals e.1 = some v ∧
          (om && isEmptyValue v) = false ∧ marshal env f' t v = .ok e.2) ∧
      (∀ k om t v, (k, om, t) ∈ fs → getField vals k = some v → (om && isEmptyValue v) = false → k ∈ m.map (·.1)) := by
  intro fs
  induction fs with
  | nil =>
    intro f vals m h
    cases f with
    | zero => simp [marshalFields] at h
    | succ f =>
      simp only [marshalFields] at h
      injection h with h; subst h
      simp
  | cons x fs ih =>
    intro f vals m h
    obtain ⟨k, om, t⟩ := x
    cases f with
    | zero => simp [marshalFields] at h
    | succ f =>
      simp only [marshalFields] at h
      cases hv : getField vals k with
      | none => simp [hv] at h
      | some v =>
        simp only [hv] at h
        by_cases hom : (om && isEmptyValue v) = true
        · simp only [hom, if_true] at h
          obtain ⟨h1, h2, h3, h4⟩ := ih f vals m h
          refine ⟨by simp; omega, ?_, ?_, ?_⟩
          · simpa using h2.cons k
          · intro e he
            obtain ⟨om', t', v', f', hf', hm', rest⟩ := h3 e he
            exact ⟨om', t', v', f', by omega, mem_cons_of_mem _ hm', rest⟩
          · intro k' om' t' v' hmem hg hne
            simp only [mem_cons, Prod.mk.injEq] at hmem
            rcases hmem with ⟨rfl, rfl, rfl⟩ | hmem
            · rw [hv] at hg; injection hg with hg; subst hg; rw [hom] at hne; cases hne
            · exact h4 k' om' t' v' hmem hg hne
        · have hom' : (om && isEmptyValue v) = false := by simpa using hom
          simp only [hom', Bool.false_eq_true, if_false, bind, Res.bind] at h
          cases hj : marshal env f t v with
          | err => simp [hj] at h
          | unsupported => simp [hj] at h
          | ok j =>
            simp only [hj] at h
            cases hr : marshalFields env f fs vals with
            | err => simp [hr] at h
            | unsupported => simp [hr] at h
            | ok m' =>
              simp only [hr, pure] at h
              injection h with h; subst h
              obtain ⟨h1, h2, h3, h4⟩ := ih f vals m' hr
              refine ⟨by simp; omega, ?_, ?_, ?_⟩
              · simpa using h2.cons₂ k
              · intro e he
                simp only [mem_cons] at he
                rcases he with rfl | he
                · exact ⟨om, t, v, f, by omega, by simp, hv, hom', hj⟩
                · obtain ⟨om', t', v', f', hf', hm', rest⟩ := h3 e he
                  exact ⟨om', t', v', f', by omega, mem_cons_of_mem _ hm', rest⟩
              · intro k' om' t' v' hmem hg hne
                simp only [mem_cons, Prod.mk.injEq] at hmem
                rcases hmem with ⟨rfl, rfl, rfl⟩ | hmem
                · simp
                · simp only [map_cons, mem_cons]; exact Or.inr (h4 k' om' t' v' hmem hg hne)

/-! ### what `overlayVals` computes, key by key -/
theorem getField_cons (k' : Str) (v' : Val) (r : List (Str × Val)) (k : Str) :
    getField ((k', v') :: r) k = if k' = k then some v' else getField r k := by
  by_cases h : k' = k <;> simp [getField, find?_cons, h]

theorem lookupV_overlayVals_some (fs : List (Str × Bool × Ty)) (cur : List (Str × Val)) :
    ∀ (vals : List (Str × Val)), (vals.map (·.1)).Nodup → ∀ (k : Str) (r : Val),
      lookupV k (overlayVals env fs cur vals) = some r →
      ∃ om t b v, fieldType fs k = some (om, t) ∧ getField cur k = some b ∧ getField vals k = some v ∧
        (om && isEmptyValue v) = false ∧ r = overlay env t b v := by
  intro vals
  induction vals with
  | nil => intro _ k r h; simp [overlayVals, lookupV] at h
  | cons x vals ih =>
    intro hnd k r h
    obtain ⟨k', v'⟩ := x
    simp only [map_cons, nodup_cons] at hnd
    have ih' := ih hnd.2
    have step : ∀ (hh : lookupV k (overlayVals env fs cur vals) = some r),
        ∃ om t b v, fieldType fs k = some (om, t) ∧ getField cur k = some b ∧ getField ((k', v') :: vals) k = some v ∧
          (om && isEmptyValue v) = false ∧ r = overlay env t b v := by
      intro hh
      obtain ⟨om, t, b, v, h1, h2, h3, h4, h5⟩ := ih' k r hh
      have hne : k' ≠ k := by
        intro e; subst e
        exact hnd.1 ((getField_isSome_iff vals k').mp (by rw [h3]; rfl))
      exact ⟨om, t, b, v, h1, h2, by rw [getField_cons]; simp [hne, h3], h4, h5⟩
    simp only [overlayVals] at h
    cases hft : fieldType fs k' with
    | none => simp only [hft] at h; exact step h
    | some ot =>
      obtain ⟨om, t⟩ := ot
      cases hb : getField cur k' with
      | none => simp only [hft, hb] at h; exact step h
      | some b =>
        simp only [hft, hb] at h
        by_cases hom : (om && isEmptyValue v') = true
        · simp only [hom, if_true] at h; exact step h
        · have hom' : (om && isEmptyValue v') = false := by simpa using hom
          simp only [hom', Bool.false_eq_true, if_false, lookupV] at h
          by_cases hk : k' = k
          · subst hk
            simp only [if_true, Option.some.injEq] at h
            exact ⟨om, t, b, v', hft, hb, by simp [getField_cons], hom', h.symm⟩
          · simp only [hk, if_false] at h; exact step h

theorem lookupV_overlayVals_of (fs : List (Str × Bool × Ty)) (cur : List (Str × Val)) :
    ∀ (vals : List (Str × Val)), (vals.map (·.1)).Nodup → ∀ (k : Str) (om : Bool) (t : Ty) (b v : Val),
      fieldType fs k = some (om, t) → getField cur k = some b → getField vals k = some v →
      (om && isEmptyValue v) = false → lookupV k (overlayVals env fs cur vals) = some (overlay env t b v) := by
  intro vals
  induction vals with
  | nil => intro _ k om t b v _ _ h; simp [getField] at h
  | cons x vals ih =>
    intro hnd k om t b v hft hb hv hom
    obtain ⟨k', v'⟩ := x
    simp only [map_cons, nodup_cons] at hnd
    rw [getField_cons] at hv
    by_cases hk : k' = k
    · subst hk
      simp only [if_true, Option.some.injEq] at hv; subst hv
      simp [overlayVals, hft, hb, hom, lookupV]
    · simp only [hk, if_false] at hv
      have := ih hnd.2 k om t b v hft hb hv hom
      simp only [overlayVals]
      cases hft' : fieldType fs k' with
      | none => simpa using this
      | some ot =>
        obtain ⟨om', t'⟩ := ot
        cases hb' : getField cur k' with
        | none => simpa using this
        | some b' =>
          by_cases hom2 : (om' && isEmptyValue v') = true
          · simpa [hom2] using this
          · have hom2' : (om' && isEmptyValue v') = false := by simpa using hom2
            simp only [hom2', Bool.false_eq_true, if_false, lookupV, hk]
            exact this

theorem getField_applyFields (cur ov : List (Str × Val)) (k : Str) :
    getField (applyFields cur ov) k = (getField cur k).map fun b => (lookupV k ov).getD b := by
  unfold applyFields
  induction cur with
  | nil => simp [getField]
  | cons c cur ih =>
    obtain ⟨ck, cv⟩ := c
    rw [map_cons, getField_cons, getField_cons]
    by_cases h : ck = k
    · subst h; simp
    · simp only [h, if_false]; exact ih

/-! ### `canonAny` on an object with distinct keys: a permutation with canonicalised members -/
theorem mapStore_fresh {α} (m : List (Str × α)) (k : Str) (v : α) (h : k ∉ m.map (·.1)) : mapStore m k v = m ++ [(k, v)] := by
  unfold mapStore
  have : m.any (fun e => decide (e.1 = k)) = false := by
    rw [Bool.eq_false_iff]; intro hc
    rw [any_eq_true] at hc
    obtain ⟨e, he, hk⟩ := hc
    exact h (by rw [← of_decide_eq_true hk]; exact mem_map_of_mem he)
  simp [this]

theorem foldl_mapStore_nodup {α β} (g : β → α) : ∀ (kv : List (Str × β)) (acc : List (Str × α)),
    (kv.map (·.1)).Nodup → (∀ e ∈ kv, e.1 ∉ acc.map (·.1)) →
    kv.foldl (fun m (e : Str × β) => mapStore m e.1 (g e.2)) acc = acc ++ kv.map (fun e => (e.1, g e.2)) := by
  intro kv
  induction kv with
  | nil => intro acc _ _; simp
  | cons e kv ih =>
    intro acc hnd hdis
    simp only [map_cons, nodup_cons] at hnd
    simp only [foldl_cons]
    rw [mapStore_fresh acc e.1 (g e.2) (hdis e (by simp))]
    rw [ih (acc ++ [(e.1, g e.2)]) hnd.2]
    · simp
    · intro e' he'
      simp only [map_append, map_cons, map_nil, mem_append, mem_cons, not_mem_nil, or_false, not_or]
      refine ⟨hdis e' (mem_cons_of_mem _ he'), ?_⟩
      intro heq; apply hnd.1; rw [← heq]; exact mem_map_of_mem he'

theorem canonAny_obj (n : Nat) (m : List (Str × Json)) (hnd : (m.map (·.1)).Nodup) :
    ∃ kv, canonAny (n+1) (.obj m) = .obj kv ∧ kv ~ m.map (fun e => (e.1, canonAny n e.2)) := by
  refine ⟨_, rfl, ?_⟩
  rw [foldl_mapStore_nodup (canonAny n) m [] hnd (by simp)]
  simp only [nil_append]
  exact mergeSort_perm _ _

/-! ### schema-level facts descend to fields -/
theorem tyOkFields_mem : ∀ (fs : List (Str × Bool × Ty)) (x : Str × Bool × Ty), tyOkFields fs = true → x ∈ fs → tyOk x.2.2 = true := by
  intro fs
  induction fs with
  | nil => intro x _ h; cases h
  | cons y fs ih =>
    intro x h hx
    obtain ⟨yk, yo, yt⟩ := y
    simp only [tyOkFields, Bool.and_eq_true] at h
    simp only [mem_cons] at hx
    rcases hx with rfl | hx
    · exact h.1
    · exact ih x h.2 hx

theorem simpleFields_mem : ∀ (fs : List (Str × Bool × Ty)) (x : Str × Bool × Ty), simpleFields fs = true → x ∈ fs → simple x.2.2 = true := by
  intro fs
  induction fs with
  | nil => intro x _ h; cases h
  | cons y fs ih =>
    intro x h hx
    obtain ⟨yk, yo, yt⟩ := y
    simp only [simpleFields, Bool.and_eq_true] at h
    simp only [mem_cons] at hx
    rcases hx with rfl | hx
    · exact h.1
    · exact ih x h.2 hx

theorem slackFields_mem (sc : Nat) : ∀ (fs : List (Str × Bool × Ty)) (x : Str × Bool × Ty), x ∈ fs → slack sc x.2.2 ≤ slackFields sc fs := by
  intro fs
  induction fs with
  | nil => intro x h; cases h
  | cons y fs ih =>
    intro x hx
    obtain ⟨yk, yo, yt⟩ := y
    simp only [slackFields]
    simp only [mem_cons] at hx
    rcases hx with rfl | hx
    · simp
    · have := ih x hx; omega

theorem WTVals_mem (fs : List (Str × Bool × Ty)) : ∀ (vals : List (Str × Val)) (k : Str) (v : Val) (om : Bool) (t : Ty),
    WTVals env fs vals → (k, v) ∈ vals → fieldType fs k = some (om, t) → WT env t v := by
  intro vals
  induction vals with
  | nil => intro k v om t _ h; cases h
  | cons y vals ih =>
    intro k v om t h hm hft
    obtain ⟨yk, yv⟩ := y
    simp only [WTVals] at h
    simp only [mem_cons, Prod.mk.injEq] at hm
    rcases hm with ⟨rfl, rfl⟩ | hm
    · have := h.1; rw [hft] at this; exact this
    · exact ih k v om t h.2 hm hft

theorem BaseOkVals_mem (fs : List (Str × Bool × Ty)) : ∀ (cur : List (Str × Val)) (k : Str) (b : Val) (om : Bool) (t : Ty),
    BaseOkVals fs cur → (k, b) ∈ cur → fieldType fs k = some (om, t) → BaseOk t b := by
  intro cur
  induction cur with
  | nil => intro k b om t _ h; cases h
  | cons y cur ih =>
    intro k b om t h hm hft
    obtain ⟨yk, yv⟩ := y
    simp only [BaseOkVals] at h
    simp only [mem_cons, Prod.mk.injEq] at hm
    rcases hm with ⟨rfl, rfl⟩ | hm
    · have := h.1; rw [hft] at this; exact this
    · exact ih k b om t h.2 hm hft

/-! ### the zero value is a well-formed decode target -/
theorem zeroFields_keys : ∀ fs : List (Str × Bool × Ty), (zeroFields fs).map (·.1) = fs.map (·.1)
  | [] => by simp [zeroFields]
  | (k, om, t) :: fs => by simp [zeroFields, zeroFields_keys fs]

mutual
theorem baseOk_zero : ∀ t : Ty, tyOk t = true → BaseOk t (zero t)
  | .bool, _ => by simp [zero, BaseOk]
  | .str, _ => by simp [zero, BaseOk]
  | .int _ _, _ => by simp [zero, BaseOk]
  | .ptr _, _ => by simp [zero, BaseOk]
  | .slice _, _ => by simp [zero, BaseOk, isLoadedContainer]
  | .map _, _ => by simp [zero, BaseOk, isLoadedContainer]
  | .any, _ => by simp [zero, BaseOk]
  | .custom c, _ => by cases c <;> simp [zero, BaseOk]
  | .struct fs, h => by
    simp only [tyOk, Bool.and_eq_true, decide_eq_true_eq] at h
    simp only [zero, BaseOk]
    exact ⟨zeroFields_keys fs, baseOkVals_zero fs fs h.1 (fun x hx => hx) h.2⟩
theorem baseOkVals_zero (allfs : List (Str × Bool × Ty)) : ∀ fs : List (Str × Bool × Ty), (allfs.map (·.1)).Nodup →
    (∀ x ∈ fs, x ∈ allfs) → tyOkFields fs = true → BaseOkVals allfs (zeroFields fs)
  | [], _, _, _ => by simp [zeroFields, BaseOkVals]
  | (k, om, t) :: fs, hnd, hsub, h => by
    simp only [tyOkFields, Bool.and_eq_true] at h
    simp only [zeroFields, BaseOkVals]
    refine ⟨?_, baseOkVals_zero allfs fs hnd (fun x hx => hsub x (mem_cons_of_mem _ hx)) h.2⟩
    rw [fieldType_of_mem allfs hnd k om t (hsub _ (by simp))]
    exact baseOk_zero t h.1
end

theorem Json.lookup_of_mem (kv : List (Str × Json)) (hnd : (kv.map (·.1)).Nodup) (k : Str) (j : Json) (h : (k, j) ∈ kv) :
    Json.lookup k kv = some j := by
  induction kv with
  | nil => cases h
  | cons x r ih =>
    obtain ⟨xk, xv⟩ := x
    simp only [map_cons, nodup_cons, mem_map, not_exists, not_and] at hnd
    simp only [mem_cons, Prod.mk.injEq] at h
    rcases h with ⟨rfl, rfl⟩ | h
    · simp [Json.lookup]
    · have hne : ¬ xk = k := fun e => hnd.1 (k, j) h e.symm
      simp only [Json.lookup, hne, if_false]
      exact ih hnd.2 h

/-! ### the statements proved together by induction on the encoder's fuel -/
section main
variable (sc : Nat)

def RT (f : Nat) : Prop :=
  ∀ (n : Nat) (t : Ty) (v : Val) (j : Json) (base : Val) (F : Nat),
    marshal env f t v = .ok j → tyOk t = true → WT env t v → BaseOk t base → (n = 0 ∨ simple t = true) →
    f + slack sc t ≤ F → unmarshal env F t (canonAny n j) base = .ok (overlay env t base v)

def RTList (f : Nat) : Prop :=
  ∀ (n : Nat) (t : Ty) (vs : List Val) (js : List Json) (F : Nat),
    marshalList env f t vs = .ok js → tyOk t = true → WTList env t vs → (n = 0 ∨ simple t = true) →
    f + slack sc t ≤ F → unmarshalList env F t (js.map (canonAny n)) = .ok (overlayList env t vs)

def RTMap (f : Nat) : Prop :=
  ∀ (t : Ty) (kvs : List (Str × Val)) (m : List (Str × Json)) (acc : List (Str × Val)) (F : Nat),
    marshalMap env f t kvs = .ok m → tyOk t = true → WTKVs env t kvs → f + slack sc t ≤ F →
    unmarshalMap env F t m acc = .ok ((overlayKVs env t kvs).foldl (fun a e => mapStore a e.1 e.2) acc)

def RTKeys (f : Nat) : Prop :=
  ∀ (kvs : List (Str × Val)) (js : List Json) (acc : List (Str × Val)) (F : Nat),
    marshalSigningKeys env f kvs = .ok js → WTKeys env kvs → f + 2 + sc ≤ F →
    unmarshalSigningKeys env F js acc = .ok ((overlayKeys env kvs).foldl (fun a e => mapStore a e.1 e.2) acc)

theorem rtList_step (f : Nat) (h1 : RT env sc f) (h2 : RTList env sc f) : RTList env sc (f+1) := by
  intro n t vs js F hm hty hwt hs hF
  obtain ⟨F', rfl⟩ : ∃ F', F = F' + 1 := ⟨F - 1, by omega⟩
  cases vs with
  | nil =>
    simp only [marshalList] at hm
    injection hm with hm; subst hm
    simp [unmarshalList, overlayList]
  | cons v vs =>
    simp only [marshalList, bind, Res.bind] at hm
    cases hj : marshal env f t v with
    | err => simp [hj] at hm
    | unsupported => simp [hj] at hm
    | ok j =>
      cases hr : marshalList env f t vs with
      | err => simp [hj, hr] at hm
      | unsupported => simp [hj, hr] at hm
      | ok js' =>
        simp only [hj, hr, pure] at hm
        injection hm with hm; subst hm
        simp only [WTList] at hwt
        simp only [map_cons, unmarshalList, bind, Res.bind, overlayList]
        rw [h1 n t v j (zero t) F' hj hty hwt.1 (baseOk_zero t hty) hs (by omega)]
        simp only []
        rw [h2 n t vs js' F' hr hty hwt.2 hs (by omega)]
        rfl

theorem rtMap_step (f : Nat) (h1 : RT env sc f) (h2 : RTMap env sc f) : RTMap env sc (f+1) := by
  intro t kvs m acc F hm hty hwt hF
  obtain ⟨F', rfl⟩ : ∃ F', F = F' + 1 := ⟨F - 1, by omega⟩
  cases kvs with
  | nil =>
    simp only [marshalMap] at hm
    injection hm with hm; subst hm
    simp [unmarshalMap, overlayKVs]
  | cons e kvs =>
    obtain ⟨k, v⟩ := e
    simp only [marshalMap, bind, Res.bind] at hm
    cases hj : marshal env f t v with
    | err => simp [hj] at hm
    | unsupported => simp [hj] at hm
    | ok j =>
      cases hr : marshalMap env f t kvs with
      | err => simp [hj, hr] at hm
      | unsupported => simp [hj, hr] at hm
      | ok m' =>
        simp only [hj, hr, pure] at hm
        injection hm with hm; subst hm
        simp only [WTKVs] at hwt
        simp only [unmarshalMap, bind, Res.bind, overlayKVs, foldl_cons]
        have := h1 0 t v j (zero t) F' hj hty hwt.1 (baseOk_zero t hty) (Or.inl rfl) (by omega)
        rw [canonAny_zero] at this
        rw [this]
        simp only []
        exact h2 t kvs m' _ F' hr hty hwt.2 (by omega)

theorem marshal_struct_inv (f : Nat) (fs : List (Str × Bool × Ty)) (v : Val) (j : Json)
    (h : marshal env f (.struct fs) v = .ok j) :
    ∃ f' vals m, f = f' + 1 ∧ v = .struct vals ∧ marshalFields env f' fs vals = .ok m ∧ j = .obj m := by
  cases f with
  | zero => simp [marshal] at h
  | succ f' =>
    cases v <;> simp only [marshal] at h <;> try (cases h)
    next vals =>
      cases hm : marshalFields env f' fs vals with
      | err => simp [hm, bind, Res.bind] at h
      | unsupported => simp [hm, bind, Res.bind] at h
      | ok m =>
        simp only [hm, bind, Res.bind, pure] at h
        injection h with h
        exact ⟨f', vals, m, rfl, rfl, hm, h.symm⟩

theorem sublist_nodup_keys {α β} (l₁ : List (Str × α)) (l₂ : List (Str × β)) (h : (l₁.map (·.1)).Sublist (l₂.map (·.1)))
    (hnd : (l₂.map (·.1)).Nodup) : (l₁.map (·.1)).Nodup := h.nodup hnd

theorem rtKeys_step (henv : EnvOk env) (hsc : slack sc env.userScope ≤ sc) (f : Nat)
    (h1 : RT env sc f) (h2 : RTKeys env sc f) : RTKeys env sc (f+1) := by
  intro kvs js acc F hm hwt hF
  obtain ⟨F', rfl⟩ : ∃ F', F = F' + 1 := ⟨F - 1, by omega⟩
  cases kvs with
  | nil =>
    simp only [marshalSigningKeys] at hm
    injection hm with hm; subst hm
    simp [unmarshalSigningKeys, overlayKeys]
  | cons e kvs =>
    obtain ⟨k, v⟩ := e
    cases v with
    | nil =>
      simp only [WTKeys] at hwt
      obtain ⟨hv, hwt'⟩ := hwt
      simp only [marshalSigningKeys, bind, Res.bind] at hm
      cases hr : marshalSigningKeys env f kvs with
      | err => simp [hr] at hm
      | unsupported => simp [hr] at hm
      | ok js' =>
        simp only [hr, pure] at hm
        injection hm with hm; subst hm
        simp only [unmarshalSigningKeys, overlayKeys, foldl_cons]
        exact h2 kvs js' _ F' hr hwt' (by omega)
    | ptr s =>
      cases s with
      | struct sfs =>
        simp only [WTKeys] at hwt
        obtain ⟨⟨hkind, hkey, hwts⟩, hwt'⟩ := hwt
        obtain ⟨ufs, hus, hfk, hfkey⟩ := henv.shape
        simp only [marshalSigningKeys, bind, Res.bind] at hm
        cases hj : marshal env f env.userScope (.struct sfs) with
        | err => simp [hj] at hm
        | unsupported => simp [hj] at hm
        | ok j =>
          cases hr : marshalSigningKeys env f kvs with
          | err => simp [hj, hr] at hm
          | unsupported => simp [hj, hr] at hm
          | ok js' =>
            simp only [hj, hr, pure] at hm
            injection hm with hm; subst hm
            -- shape of the marshalled scope
            have hty := henv.ty
            rw [hus] at hj hty
            obtain ⟨f', vals, m, rfl, hvals, hmf, rfl⟩ := marshal_struct_inv env f ufs _ j hj
            injection hvals with hvals; subst hvals
            simp only [tyOk, Bool.and_eq_true, decide_eq_true_eq] at hty
            obtain ⟨hm1, hm2, hm3, hm4⟩ := marshalFields_spec env ufs f' sfs m hmf
            have hmnd : (m.map (·.1)).Nodup := hm2.nodup hty.1
            obtain ⟨ckv, hck, hperm⟩ := canonAny_obj 199 m hmnd
            -- the kind tag is there
            have hkin : "kind".toList ∈ m.map (·.1) :=
              hm4 "kind".toList false (.custom .scopeType) (.int 1) (mem_of_fieldType ufs _ _ _ hfk) hkind (by simp)
            obtain ⟨ek, hek, hekk⟩ := mem_map.mp hkin
            obtain ⟨om, t, v, fk, _, hmem, hgv, _, hmk⟩ := hm3 ek hek
            rw [hekk] at hmem hgv
            have := fieldType_of_mem ufs hty.1 _ _ _ hmem
            rw [hfk] at this; injection this with this; injection this with e1 e2; subst e1; subst e2
            rw [hkind] at hgv; injection hgv with hgv; subst hgv
            have hjk : ek.2 = .str "user_scope".toList := by
              cases fk with
              | zero => simp [marshal] at hmk
              | succ fk => simp [marshal] at hmk; exact hmk.symm
            have hckn : (ckv.map (·.1)).Nodup := by
              have := hperm.map (·.1)
              rw [map_map] at this
              exact (this.nodup_iff).mpr (by simpa [Function.comp_def] using hmnd)
            have hlook : Json.lookup "kind".toList ckv = some (.str "user_scope".toList) := by
              apply Json.lookup_of_mem ckv hckn
              apply hperm.symm.subset
              apply mem_map.mpr
              exact ⟨ek, hek, by rw [hekk, hjk]; simp⟩
            -- decode the scope
            have hsnd : (sfs.map (·.1)).Nodup := by
              have := hwts; rw [hus] at this; simp only [WT] at this; exact this.1
            have hbase := henv.base
            have hsimp := henv.simp
            have hscope := h1 200 env.userScope (.struct sfs) (.obj m) env.userScopeBase F'
              (by rw [hus]; exact hj) henv.ty hwts hbase (Or.inr hsimp) (by omega)
            rw [show (200 : Nat) = 199 + 1 from rfl, hck] at hscope
            simp only [unmarshalSigningKeys]
            rw [show canonAny 200 (.obj m) = .obj ckv from hck]
            simp only [hlook, if_true, bind, Res.bind, hscope]
            -- the key it is filed under
            rw [hus] at hbase
            cases hb : env.userScopeBase with
            | struct cur =>
              rw [hb] at hbase
              simp only [BaseOk] at hbase
              have hcurk : "key".toList ∈ cur.map (·.1) := by
                rw [hbase.1]; exact mem_map.mpr ⟨_, mem_of_fieldType ufs _ _ _ hfkey, rfl⟩
              obtain ⟨b, hbk⟩ := Option.isSome_iff_exists.mp ((getField_isSome_iff cur _).mpr hcurk)
              have hov := lookupV_overlayVals_of env ufs cur sfs hsnd "key".toList false .str b (.str k) hfkey hbk hkey (by simp)
              have hgk : getField (applyFields cur (overlayVals env ufs cur sfs)) "key".toList = some (.str k) := by
                rw [getField_applyFields, hbk, hov]; simp [overlay]
              simp only [hus, overlay, hgk, overlayKeys, foldl_cons]
              have := h2 kvs js' (mapStore acc k (.ptr (.struct (applyFields cur (overlayVals env ufs cur sfs))))) F' hr hwt' (by omega)
              simpa [hus, hb, overlay] using this
            | _ => rw [hb] at hbase; simp [BaseOk] at hbase
      | _ => simp [WTKeys] at hwt
    | _ => simp [WTKeys] at hwt

theorem canonAny_arr (n : Nat) (js : List Json) : ∃ n', canonAny n (.arr js) = .arr (js.map (canonAny n')) ∧ (n = 0 → n' = 0) := by
  cases n with
  | zero => exact ⟨0, by simp [show canonAny 0 = id from funext fun _ => rfl], fun _ => rfl⟩
  | succ n => exact ⟨n, rfl, fun h => by cases h⟩

theorem overlayKVs_eq_map (t : Ty) : ∀ kvs : List (Str × Val),
    overlayKVs env t kvs = kvs.map (fun e => (e.1, overlay env t (zero t) e.2))
  | [] => by simp [overlayKVs]
  | (k, v) :: kvs => by simp [overlayKVs, overlayKVs_eq_map t kvs]

theorem WTKVs_iff (t : Ty) : ∀ kvs : List (Str × Val), WTKVs env t kvs ↔ ∀ e ∈ kvs, WT env t e.2
  | [] => by simp [WTKVs]
  | (k, v) :: kvs => by simp [WTKVs, WTKVs_iff t kvs]


theorem marshalList_str : ∀ (f : Nat) (vs : List Val) (js : List Json), marshalList env f .str vs = .ok js →
    ∃ ss : List Str, vs = ss.map Val.str ∧ js = ss.map Json.str := by
  intro f
  induction f with
  | zero => intro vs js h; simp [marshalList] at h
  | succ f ih =>
    intro vs js h
    cases vs with
    | nil => simp only [marshalList] at h; injection h with h; subst h; exact ⟨[], rfl, rfl⟩
    | cons v vs =>
      simp only [marshalList, bind, Res.bind] at h
      cases hj : marshal env f .str v with
      | err => simp [hj] at h
      | unsupported => simp [hj] at h
      | ok j =>
        cases hr : marshalList env f .str vs with
        | err => simp [hj, hr] at h
        | unsupported => simp [hj, hr] at h
        | ok js' =>
          simp only [hj, hr, pure] at h
          injection h with h; subst h
          obtain ⟨ss, rfl, rfl⟩ := ih vs js' hr
          cases f with
          | zero => simp [marshal] at hj
          | succ f =>
            cases v <;> simp only [marshal] at hj <;> try (cases hj)
            next s => exact ⟨s :: ss, rfl, rfl⟩

theorem mapM_str (g : Json → Option Str) (hg : ∀ s, g (.str s) = some s) (ss : List Str) :
    (ss.map Json.str).mapM g = some ss := by
  induction ss with
  | nil => rfl
  | cons s ss ih => simp [List.mapM_cons, ih, hg]

/-- what decoding does to one signing-key entry -/
def keyOv (e : Str × Val) : Str × Val :=
  (e.1, match e.2 with
    | .ptr s => .ptr (overlay env env.userScope env.userScopeBase s)
    | other => other)

theorem keyOv_fst (e : Str × Val) : (keyOv env e).1 = e.1 := rfl

theorem overlayKeys_eq_map : ∀ kvs : List (Str × Val), overlayKeys env kvs = kvs.map (keyOv env)
  | [] => by simp [overlayKeys]
  | (k, v) :: kvs => by
    have ih := overlayKeys_eq_map kvs
    cases v <;> simp [overlayKeys, ih, keyOv]

theorem WTKeys_cons (e : Str × Val) (l : List (Str × Val)) : WTKeys env (e :: l) ↔ WTKeys env [e] ∧ WTKeys env l := by
  obtain ⟨k, v⟩ := e
  cases v with
  | ptr s => cases s <;> simp [WTKeys]
  | _ => simp [WTKeys]

theorem WTKeys_perm {l l' : List (Str × Val)} (h : l ~ l') : WTKeys env l → WTKeys env l' := by
  induction h with
  | nil => exact id
  | cons x _ ih =>
    intro h
    obtain ⟨a, b⟩ := (WTKeys_cons env x _).mp h
    exact (WTKeys_cons env x _).mpr ⟨a, ih b⟩
  | swap x y l =>
    intro h
    obtain ⟨a, h'⟩ := (WTKeys_cons env y _).mp h
    obtain ⟨b, c⟩ := (WTKeys_cons env x _).mp h'
    exact (WTKeys_cons env x _).mpr ⟨b, (WTKeys_cons env y _).mpr ⟨a, c⟩⟩
  | trans _ _ ih1 ih2 => exact fun h => ih2 (ih1 h)

theorem intMax64 : intMax true 64 = 9223372036854775807 := by decide
theorem intMin64 : intMin true 64 = -9223372036854775808 := by decide

theorem rt_step (f : Nat) (hRT : ∀ f', f' ≤ f → RT env sc f') (hL : RTList env sc f) (hM : RTMap env sc f)
    (hK : RTKeys env sc f) : RT env sc (f+1) := by
  intro n t v j base F hm hty hwt hb hs hF
  obtain ⟨F', rfl⟩ : ∃ F', F = F' + 1 := ⟨F - 1, by omega⟩
  cases t with
  | bool =>
    cases v <;> simp only [marshal] at hm <;> try (cases hm)
    simp [unmarshal, overlay]
  | str =>
    cases v <;> simp only [marshal] at hm <;> try (cases hm)
    simp [unmarshal, overlay]
  | int sg bits =>
    cases v <;> simp only [marshal] at hm <;> try (cases hm)
    simp only [WT] at hwt
    simp [unmarshal, overlay, litToInt_intToLit sg bits _ hwt]
  | ptr t' =>
    cases v <;> simp only [marshal] at hm <;> try (cases hm)
    · simp [unmarshal, overlay]
    · next v' =>
      simp only [tyOk, Bool.and_eq_true] at hty
      cases t' with
      | struct fs =>
        obtain ⟨f', vals, m, rfl, rfl, hmf, rfl⟩ := marshal_struct_inv env f fs v' j hm
        simp only [WT] at hwt
        have hs' : n = 0 ∨ simple (.struct fs) = true := by
          rcases hs with h | h
          · exact Or.inl h
          · right; simpa [simple] using h
        have hF' : f' + 1 + slack sc (.struct fs) ≤ F' := by simp only [slack] at hF ⊢; omega
        have key : ∀ b, BaseOk (.struct fs) b →
            unmarshal env F' (.struct fs) (canonAny n (.obj m)) b = .ok (overlay env (.struct fs) b (.struct vals)) :=
          fun b hb' => hRT (f'+1) (Nat.le_refl _) n (.struct fs) (.struct vals) (.obj m) b F' hm hty.2 (by simpa [WT] using hwt) hb' hs' hF'
        obtain ⟨kv', hkv'⟩ : ∃ kv', canonAny n (.obj m) = .obj kv' := by
          cases n with
          | zero => exact ⟨m, rfl⟩
          | succ n => exact ⟨_, rfl⟩
        rw [hkv'] at key ⊢
        cases base with
        | ptr b =>
          simp only [BaseOk] at hb
          simp only [unmarshal, bind, Res.bind, overlay]
          rw [key b hb]; rfl
        | _ =>
          simp only [unmarshal, bind, Res.bind, overlay]
          rw [key _ (baseOk_zero _ hty.2)]; rfl
      | _ => simp [isStructTy] at hty
  | slice t' =>
    cases v <;> simp only [marshal] at hm <;> try (cases hm)
    · simp [unmarshal, overlay]
    · next vs =>
      cases hml : marshalList env f t' vs with
      | err => simp [hml, bind, Res.bind] at hm
      | unsupported => simp [hml, bind, Res.bind] at hm
      | ok js =>
        simp only [hml, bind, Res.bind, pure] at hm
        injection hm with hm; subst hm
        obtain ⟨n', hn', hn0⟩ := canonAny_arr n js
        rw [hn']
        simp only [BaseOk] at hb
        simp only [WT] at hwt
        simp only [tyOk] at hty
        have hs' : n' = 0 ∨ simple t' = true := by
          rcases hs with h | h
          · exact Or.inl (hn0 h)
          · right; simpa [simple] using h
        simp only [unmarshal, hb, Bool.false_eq_true, if_false, bind, Res.bind, overlay]
        rw [hL n' t' vs js F' hml hty hwt hs' (by simp only [slack] at hF; omega)]; rfl
  | map t' =>
    have hn : n = 0 := by rcases hs with h | h; exact h; simp [simple] at h
    subst hn
    rw [canonAny_zero]
    cases v <;> simp only [marshal] at hm <;> try (cases hm)
    · simp [unmarshal, overlay]
    · next kvs =>
      cases hmm : marshalMap env f t' (sortByKey kvs) with
      | err => simp [hmm, bind, Res.bind] at hm
      | unsupported => simp [hmm, bind, Res.bind] at hm
      | ok m =>
        simp only [hmm, bind, Res.bind, pure] at hm
        injection hm with hm; subst hm
        simp only [BaseOk] at hb
        simp only [WT] at hwt
        simp only [tyOk] at hty
        have hperm : sortByKey kvs ~ kvs := mergeSort_perm _ _
        have hwt' : WTKVs env t' (sortByKey kvs) := by
          rw [WTKVs_iff]; intro e he
          exact (WTKVs_iff env t' kvs).mp hwt.2 e (hperm.subset he)
        simp only [unmarshal, hb, Bool.false_eq_true, if_false, bind, Res.bind, overlay]
        rw [hM t' (sortByKey kvs) m [] F' hmm hty hwt' (by simp only [slack] at hF; omega)]
        simp only []
        congr 2
        rw [overlayKVs_eq_map, overlayKVs_eq_map]
        have hnd : ((sortByKey kvs).map (·.1)).Nodup := (hperm.map (·.1)).nodup_iff.mpr hwt.1
        have := foldl_mapStore_nodup (fun (x : Val) => x) ((sortByKey kvs).map (fun e => (e.1, overlay env t' (zero t') e.2))) []
          (by simpa [Function.comp_def] using hnd) (by simp)
        simp only [nil_append, map_map, Function.comp_def, map_id'] at this
        rw [this]
        unfold sortByKey
        rw [← map_mergeSort (r := fun a b => strLe a.1 b.1) (s := fun a b => strLe a.1 b.1)
          (f := fun e : Str × Val => (e.1, overlay env t' (zero t') e.2)) (by intros; rfl)]
  | struct fs =>
    obtain ⟨f', vals, m, hf, rfl, hmf, rfl⟩ := marshal_struct_inv env (f+1) fs v j hm
    injection hf with hf; subst hf
    simp only [tyOk, Bool.and_eq_true, decide_eq_true_eq] at hty
    simp only [WT] at hwt
    cases base with
    | struct cur =>
      simp only [BaseOk] at hb
      obtain ⟨hm1, hm2, hm3, hm4⟩ := marshalFields_spec env fs f vals m hmf
      have hmnd : (m.map (·.1)).Nodup := hm2.nodup hty.1
      have hcurnd : (cur.map (·.1)).Nodup := by rw [hb.1]; exact hty.1
      -- the (possibly re-ordered, canonicalised) object
      obtain ⟨kv, n', hkv, hperm, hs'⟩ : ∃ kv n', canonAny n (.obj m) = .obj kv ∧
          kv ~ m.map (fun e => (e.1, canonAny n' e.2)) ∧ (n' = 0 ∨ simpleFields fs = true) := by
        cases n with
        | zero =>
          refine ⟨m, 0, rfl, ?_, Or.inl rfl⟩
          have : m.map (fun e => (e.1, canonAny 0 e.2)) = m := by
            conv => rhs; rw [← map_id m]
            apply map_congr_left; intro e _; rfl
          rw [this]
        | succ n =>
          obtain ⟨kv, h1, h2⟩ := canonAny_obj n m hmnd
          refine ⟨kv, n, h1, h2, ?_⟩
          rcases hs with h | h
          · cases h
          · right; simpa [simple] using h
      rw [hkv]
      have hkeys : kv.map (·.1) ~ m.map (·.1) := by
        have := hperm.map (·.1)
        simpa [map_map, Function.comp_def] using this
      have hkvnd : (kv.map (·.1)).Nodup := hkeys.nodup_iff.mpr hmnd
      have hlen : kv.length ≤ fs.length := by
        have := hperm.length_eq; simp at this; omega
      let ov := overlayVals env fs cur vals
      have hcurget : ∀ k, k ∈ fs.map (·.1) → ∃ b, getField cur k = some b := by
        intro k hk
        exact Option.isSome_iff_exists.mp ((getField_isSome_iff cur k).mpr (by rw [hb.1]; exact hk))
      have hspec := unmarshalFields_spec env fs hty.1 (fun k => (lookupV k ov).getD .nil) (f + slackFields sc fs)
        kv cur F' hkvnd
        (by
          intro e he
          obtain ⟨e0, he0, rfl⟩ := mem_map.mp (hperm.subset he)
          obtain ⟨om, t, v, f0, hf0, hmem, hgv, hno, hmar⟩ := hm3 e0 he0
          obtain ⟨b, hbk⟩ := hcurget e0.1 (mem_map.mpr ⟨_, hmem, rfl⟩)
          have hft := fieldType_of_mem fs hty.1 _ _ _ hmem
          refine ⟨om, t, b, hmem, hbk, ?_⟩
          intro F'' hF''
          have hsl := slackFields_mem sc fs _ hmem
          have := hRT f0 (by omega) n' t v e0.2 b F'' hmar (tyOkFields_mem fs _ hty.2 hmem)
            (WTVals_mem env fs vals _ _ om t hwt.2 (mem_of_getField _ _ _ hgv) hft)
            (BaseOkVals_mem fs cur _ _ om t hb.2 (mem_of_getField _ _ _ hbk) hft)
            (by rcases hs' with h | h; exact Or.inl h; exact Or.inr (simpleFields_mem fs _ h hmem))
            (by simp only at hsl; omega)
          rw [this]
          simp only [lookupV_overlayVals_of env fs cur vals hwt.1 _ om t b v hft hbk hgv hno, Option.getD_some, ov])
        (by simp only [slack] at hF; omega)
      simp only [unmarshal, bind, Res.bind, hspec, pure, overlay]
      congr 2
      unfold applyFields
      apply map_congr_left
      intro c hc
      have hck : (kv.map (·.1)) ~ (m.map (·.1)) := hkeys
      cases hl : lookupV c.1 ov with
      | some x =>
        obtain ⟨om, t, b, v, h1, h2, h3, h4, _⟩ := lookupV_overlayVals_some env fs cur vals hwt.1 c.1 x hl
        have hin : c.1 ∈ kv.map (·.1) := hck.symm.subset (hm4 c.1 om t v (mem_of_fieldType fs _ _ _ h1) h3 h4)
        simp [hin, hl, ov]
      | none =>
        have hnin : c.1 ∉ kv.map (·.1) := by
          intro hin
          obtain ⟨e0, he0, hk0⟩ := mem_map.mp (hck.subset hin)
          obtain ⟨om, t, v, f0, _, hmem, hgv, hno, _⟩ := hm3 e0 he0
          rw [hk0] at hmem hgv
          obtain ⟨b, hbk⟩ := hcurget c.1 (mem_map.mpr ⟨_, hmem, rfl⟩)
          have := lookupV_overlayVals_of env fs cur vals hwt.1 c.1 om t b v (fieldType_of_mem fs hty.1 _ _ _ hmem) hbk hgv hno
          rw [hl] at this; cases this
        simp [hnin, hl, ov]
    | _ => simp [BaseOk] at hb
  | custom c =>
    cases c with
    | exportType =>
      cases v <;> simp only [marshal] at hm <;> try (cases hm)
      next i =>
        by_cases h1 : i = 1
        · subst h1; simp at hm; subst hm; simp [unmarshal, overlay]
        · by_cases h2 : i = 2
          · subst h2; simp at hm; subst hm; simp [unmarshal, overlay]
          · simp [h1, h2] at hm
    | samplingRate =>
      cases v <;> simp only [marshal] at hm <;> try (cases hm)
      next i =>
        by_cases h0 : i = 0
        · subst h0; simp at hm; subst hm
          have : goLower ['h', 'e', 'a', 'd', 'e', 'r', 's'] = ['h', 'e', 'a', 'd', 'e', 'r', 's'] := by decide
          simp [unmarshal, overlay, this]
        · by_cases hr : 1 ≤ i ∧ i ≤ 100
          · simp [h0, hr] at hm; subst hm
            have := litToInt_intToLit true 64 i (by rw [intMax64, intMin64]; omega)
            simp [unmarshal, overlay, this]
          · simp [h0, hr] at hm
    | scopeType =>
      cases v <;> simp only [marshal] at hm <;> try (cases hm)
      next i =>
        by_cases h1 : i = 1
        · subst h1; simp at hm; subst hm; simp [unmarshal, overlay]
        · simp [h1] at hm
    | cidrList =>
      cases v <;> simp only [marshal] at hm <;> try (cases hm)
      · simp [unmarshal, overlay]
      · next vs =>
        cases hml : marshalList env f .str vs with
        | err => simp [hml, bind, Res.bind] at hm
        | unsupported => simp [hml, bind, Res.bind] at hm
        | ok js =>
          simp only [hml, bind, Res.bind, pure] at hm
          injection hm with hm; subst hm
          obtain ⟨ss, rfl, rfl⟩ := marshalList_str env f vs js hml
          obtain ⟨n', hn', _⟩ := canonAny_arr n (ss.map Json.str)
          rw [hn']
          have : (ss.map Json.str).map (canonAny n') = ss.map Json.str := by
            rw [map_map]; apply map_congr_left; intro s _; simp
          rw [this]
          simp only [unmarshal, overlay]
          rw [mapM_str _ (fun s => rfl)]
    | signingKeys =>
      have hn : n = 0 := by rcases hs with h | h; exact h; simp [simple] at h
      subst hn
      rw [canonAny_zero]
      simp only [BaseOk] at hb
      cases v <;> simp only [marshal] at hm <;> try (cases hm)
      · rcases hb with rfl | rfl <;> simp [unmarshal, overlay, skBase]
      · next kvs =>
        by_cases he : kvs.isEmpty = true
        · simp only [he, if_true] at hm
          injection hm with hm; subst hm
          rcases hb with rfl | rfl <;> simp [unmarshal, overlay, skBase, he]
        · simp only [he, Bool.false_eq_true, if_false] at hm
          cases hmk : marshalSigningKeys env f (sortByKey kvs) with
          | err => simp [hmk, bind, Res.bind] at hm
          | unsupported => simp [hmk, bind, Res.bind] at hm
          | ok js =>
            simp only [hmk, bind, Res.bind, pure] at hm
            injection hm with hm; subst hm
            simp only [WT] at hwt
            have hperm : sortByKey kvs ~ kvs := mergeSort_perm _ _
            have hwt' : WTKeys env (sortByKey kvs) := WTKeys_perm env hperm.symm hwt.2
            have hk := hK (sortByKey kvs) js [] F' hmk hwt' (by simp only [slack] at hF; omega)
            have hgoal : unmarshal env (F'+1) (.custom .signingKeys) (.arr js) base =
                .ok (.map ((overlayKeys env (sortByKey kvs)).foldl (fun a e => mapStore a e.1 e.2) [])) := by
              rcases hb with rfl | rfl <;> simp only [unmarshal, bind, Res.bind, hk] <;> rfl
            rw [hgoal]
            simp only [overlay, he, Bool.false_eq_true, if_false]
            congr 2
            rw [overlayKeys_eq_map, overlayKeys_eq_map]
            have hnd : ((sortByKey kvs).map (·.1)).Nodup := (hperm.map (·.1)).nodup_iff.mpr hwt.1
            have := foldl_mapStore_nodup (fun (x : Val) => x) ((sortByKey kvs).map (keyOv env)) []
              (by simpa [Function.comp_def, keyOv_fst] using hnd) (by simp)
            simp only [nil_append, map_map, Function.comp_def] at this
            have hid : (sortByKey kvs).map (fun x => ((keyOv env x).1, (keyOv env x).2)) = (sortByKey kvs).map (keyOv env) := by
              apply map_congr_left; intro x _; rfl
            rw [hid] at this
            rw [this]
            unfold sortByKey
            exact map_mergeSort (by intros; rfl)
  | any =>
    have hn : n = 0 := by rcases hs with h | h; exact h; simp [simple] at h
    subst hn
    rw [canonAny_zero]
    cases v <;> simp only [marshal] at hm <;> try (cases hm)
    · simp [unmarshal, overlay]
    · next j0 =>
      simp only [WT, anyOk] at hwt
      obtain ⟨hne, hsup⟩ := hwt
      have hnn : canonAny 200 j0 ≠ .null := by
        intro h; apply hne
        cases j0 <;> simp [canonAny] at h ⊢
      cases hj : canonAny 200 j0 with
      | null => exact absurd hj hnn
      | _ => rw [hj] at hsup; simp [unmarshal, overlay, hsup, hj]

theorem rt_all (henv : EnvOk env) (hsc : slack sc env.userScope ≤ sc) :
    ∀ f, (∀ f', f' ≤ f → RT env sc f') ∧ RTList env sc f ∧ RTMap env sc f ∧ RTKeys env sc f := by
  intro f
  induction f with
  | zero =>
    refine ⟨?_, ?_, ?_, ?_⟩
    · intro f' hf'
      have : f' = 0 := by omega
      subst this
      intro n t v j base F hm; simp [marshal] at hm
    · intro n t vs js F hm; simp [marshalList] at hm
    · intro t kvs m acc F hm; simp [marshalMap] at hm
    · intro kvs js acc F hm; simp [marshalSigningKeys] at hm
  | succ f ih =>
    obtain ⟨h1, h2, h3, h4⟩ := ih
    have hstep := rt_step env sc f h1 h2 h3 h4
    refine ⟨?_, rtList_step env sc f (h1 f (Nat.le_refl _)) h2, rtMap_step env sc f (h1 f (Nat.le_refl _)) h3,
      rtKeys_step env sc henv hsc f (h1 f (Nat.le_refl _)) h4⟩
    intro f' hf'
    by_cases h : f' = f + 1
    · subst h; exact hstep
    · exact h1 f' (by omega)

/-- **The codec round trip.** For every schema whose structs have pairwise different JSON keys, every
well-typed value `v` and every well-formed decode target `base`: if `marshal` succeeds with fuel `f`, then
`unmarshal` of its output — with at least `f + slack` fuel — succeeds and returns `overlay t base v`. -/
theorem unmarshal_marshal (henv : EnvOk env) (hsc : slack sc env.userScope ≤ sc)
    (f F : Nat) (t : Ty) (v : Val) (j : Json) (base : Val)
    (hm : marshal env f t v = .ok j) (hty : tyOk t = true) (hwt : WT env t v) (hb : BaseOk t base)
    (hF : f + slack sc t ≤ F) :
    unmarshal env F t j base = .ok (overlay env t base v) := by
  have := (rt_all env sc henv hsc f).1 f (Nat.le_refl _) 0 t v j base F hm hty hwt hb (Or.inl rfl) hF
  simpa using this

end main

end Jwt.Codec
