import JwtModel.Subject
import JwtProofs.Text
/-! C16 lemmas: recursive containment `cont` = semantic containment; Go-shaped loop = `cont`;
Go's string-pattern `HasWildCards` = token view. Ported from the design-round spikes. -/
namespace Jwt
section
variable {α : Type} [DecidableEq α]

/-- pattern `p` matches literal subject `s` (`star` one token, trailing `gt` one or more). -/
def matchesP (star gt : α) : List α → List α → Bool
  | [], [] => true
  | [], _ :: _ => false
  | _ :: _, [] => false
  | t :: ts, s :: ss =>
      if ts = [] ∧ t = gt then true
      else (t = star ∨ t = s) && matchesP star gt ts ss

/-- recursive form of (repaired) `Subject.IsContainedIn`: is `p` contained in `q`. -/
def cont (star gt : α) : List α → List α → Bool
  | [], [] => true
  | [], _ :: _ => false
  | _ :: _, [] => false
  | a :: p, b :: q =>
      if q = [] ∧ b = gt then true
      else (b = a ∨ (b = star ∧ a ≠ gt)) && cont star gt p q

/-- `gt` only in last position. -/
def Valid (gt : α) : List α → Prop
  | [] => True
  | [_] => True
  | a :: b :: r => a ≠ gt ∧ Valid gt (b :: r)

def Lit (star gt : α) (s : List α) : Prop := ∀ t ∈ s, t ≠ star ∧ t ≠ gt

theorem valid_tail {gt : α} {a : α} {l : List α} (h : Valid gt (a :: l)) : Valid gt l := by
  cases l with
  | nil => trivial
  | cons b r => exact h.2

theorem valid_head_ne {gt : α} {a b : α} {l : List α} (h : Valid gt (a :: b :: l)) : a ≠ gt := h.1

/-- soundness: if the algorithm says contained, every literal subject matched by p is matched by q -/
theorem cont_sound (star gt : α) (hsg : star ≠ gt) :
    ∀ (p q : List α), Valid gt p → cont star gt p q = true →
      ∀ s, Lit star gt s → matchesP star gt p s = true → matchesP star gt q s = true := by
  intro p
  induction p with
  | nil =>
    intro q _ hc s _ hm
    cases q with
    | nil => cases s <;> simp_all [matchesP]
    | cons b q => simp [cont] at hc
  | cons a p ih =>
    intro q hvp hc s hl hm
    cases q with
    | nil => simp [cont] at hc
    | cons b q =>
      cases s with
      | nil => simp [matchesP] at hm
      | cons x s =>
        have hx := hl x (by simp)
        have hls : Lit star gt s := fun t ht => hl t (by simp [ht])
        simp only [cont] at hc
        simp only [matchesP]
        by_cases hq : q = [] ∧ b = gt
        · simp [hq]
        · simp only [hq, if_false] at hc ⊢
          simp only [Bool.and_eq_true, decide_eq_true_eq] at hc
          obtain ⟨hab, hrec⟩ := hc
          simp only [matchesP] at hm
          by_cases hp : p = [] ∧ a = gt
          · -- p ends here with `>`; then b must equal a = gt (star case excluded), and q ≠ [] or b ≠ gt
            obtain ⟨hp1, hp2⟩ := hp
            subst hp1
            -- cont [] q = true forces q = []
            cases q with
            | nil =>
              rcases hab with h | ⟨_, h⟩
              · exact absurd ⟨rfl, h.trans hp2⟩ hq
              · exact absurd hp2 h
            | cons c q => simp [cont] at hrec
          · simp only [hp, if_false, Bool.and_eq_true, decide_eq_true_eq] at hm
            obtain ⟨hax, hms⟩ := hm
            have hv' : Valid gt p := valid_tail hvp
            have := ih q hv' hrec s hls hms
            simp only [Bool.and_eq_true, decide_eq_true_eq]
            refine ⟨?_, this⟩
            rcases hab with h | ⟨h, _⟩
            · rcases hax with h2 | h2
              · left; exact h.trans h2
              · right; exact h.trans h2
            · left; exact h

/-- instantiate a pattern with a fresh literal `f`: `star ↦ f`, trailing `gt ↦ f` repeated `n+1` times -/
def inst (star gt f : α) (n : Nat) : List α → List α
  | [] => []
  | t :: ts => if ts = [] ∧ t = gt then List.replicate (n+1) f
               else (if t = star then f else t) :: inst star gt f n ts

theorem inst_matches (star gt f : α) (n : Nat) :
    ∀ p, matchesP star gt p (inst star gt f n p) = true := by
  intro p
  induction p with
  | nil => simp [inst, matchesP]
  | cons t ts ih =>
    by_cases h : ts = [] ∧ t = gt
    · simp [inst, h, List.replicate_succ, matchesP]
    · simp only [inst, h, if_false, matchesP, ih, Bool.and_true, decide_eq_true_eq]
      by_cases ht : t = star
      · left; exact ht
      · right; simp [ht]

theorem inst_lit (star gt f : α) (n : Nat) (hf : f ≠ star ∧ f ≠ gt) :
    ∀ p, Valid gt p → Lit star gt (inst star gt f n p) := by
  intro p
  induction p with
  | nil => intro _ t ht; simp [inst] at ht
  | cons a p ih =>
    intro hv t ht
    by_cases h : p = [] ∧ a = gt
    · simp only [inst, h, and_self, if_true] at ht
      have := List.eq_of_mem_replicate ht
      subst this; exact hf
    · simp only [inst, h, if_false, List.mem_cons] at ht
      rcases ht with ht | ht
      · by_cases ha : a = star
        · simp only [ha, if_true] at ht; subst ht; exact hf
        · simp only [ha, if_false] at ht; subst ht
          refine ⟨ha, ?_⟩
          cases p with
          | nil => intro hg; exact h ⟨rfl, hg⟩
          | cons b r => exact hv.1
      · exact ih (valid_tail hv) t ht

/-- completeness: if the algorithm says "not contained", some literal subject separates them -/
theorem cont_complete (star gt f : α) (hf : f ≠ star ∧ f ≠ gt) :
    ∀ (p q : List α), Valid gt p → Valid gt q → f ∉ q → cont star gt p q = false →
      ∃ n, matchesP star gt q (inst star gt f n p) = false := by
  intro p
  induction p with
  | nil =>
    intro q _ _ _ hc
    cases q with
    | nil => simp [cont] at hc
    | cons b q => exact ⟨0, by simp [inst, matchesP]⟩
  | cons a p ih =>
    intro q hvp hvq hfq hc
    cases q with
    | nil =>
      refine ⟨0, ?_⟩
      by_cases h : p = [] ∧ a = gt
      · simp [inst, h, List.replicate_succ, matchesP]
      · simp [inst, h, matchesP]
    | cons b q =>
      have hfb : f ≠ b := fun h => hfq (by simp [h])
      have hfq' : f ∉ q := fun h => hfq (by simp [h])
      simp only [cont] at hc
      by_cases hq : q = [] ∧ b = gt
      · simp [hq] at hc
      · simp only [hq, if_false, Bool.and_eq_false_iff, decide_eq_false_iff_not] at hc
        by_cases hp : p = [] ∧ a = gt
        · -- p = [gt]
          obtain ⟨hp1, hp2⟩ := hp
          subst hp1; subst hp2
          by_cases hb : b = star
          · cases q with
            | nil =>
              refine ⟨1, ?_⟩
              have hba : ¬ b = a := fun h => hq ⟨rfl, h⟩
              simp [inst, List.replicate_succ, matchesP, hba]
            | cons c r =>
              refine ⟨0, ?_⟩
              simp [inst, matchesP, hq]
          · refine ⟨0, ?_⟩
            have : ¬ b = f := fun h => hfb h.symm
            simp [inst, matchesP, hq, hb, this]
        · rcases hc with hhead | hrec
          · -- head comparison fails
            refine ⟨0, ?_⟩
            have hnot : ¬ (b = a) ∧ ¬ (b = star ∧ a ≠ gt) := by
              constructor
              · intro h; exact hhead (Or.inl h)
              · intro h; exact hhead (Or.inr h)
            have hagt : a ≠ gt := by
              intro hg
              cases p with
              | nil => exact hp ⟨rfl, hg⟩
              | cons c r => exact hvp.1 hg
            have hbs : b ≠ star := fun h => hnot.2 ⟨h, hagt⟩
            simp only [inst, hp, if_false, matchesP, hq]
            by_cases ha : a = star
            · have : ¬ b = f := fun h => hfb h.symm
              simp [ha, hbs, this]
            · simp [ha, hbs, hnot.1]
          · -- tail fails
            have hvq' : Valid gt q := valid_tail hvq
            obtain ⟨n, hn⟩ := ih q (valid_tail hvp) hvq' hfq' hrec
            refine ⟨n, ?_⟩
            simp [inst, hp, matchesP, hq, hn]

/-- C16, containment half: for valid patterns (and a literal fresh for `q`, which exists for strings),
    the algorithm decides semantic containment. -/
theorem contained_iff (star gt f : α) (hf : f ≠ star ∧ f ≠ gt) (hsg : star ≠ gt)
    (p q : List α) (hp : Valid gt p) (hq : Valid gt q) (hfq : f ∉ q) :
    cont star gt p q = true ↔
      ∀ s, Lit star gt s → matchesP star gt p s = true → matchesP star gt q s = true := by
  constructor
  · exact cont_sound star gt hsg p q hp
  · intro h
    cases hc : cont star gt p q with
    | true => rfl
    | false =>
      obtain ⟨n, hn⟩ := cont_complete star gt f hf p q hp hq hfq hc
      have := h _ (inst_lit star gt f n hf p hp) (inst_matches star gt f n p)
      rw [hn] at this; cases this


-- the unrepaired comparison (`*` absorbs `>`, defect D2 before its repair) is NOT sound: counter-witness
def contOld (star gt : α) : List α → List α → Bool
  | [], [] => true
  | [], _ :: _ => false
  | _ :: _, [] => false
  | a :: p, b :: q =>
      if q = [] ∧ b = gt then true
      else (b = a ∨ b = star) && contOld star gt p q
example : contOld '*' '>' ['>'] ['*'] = true ∧ matchesP '*' '>' ['>'] ['a','b'] = true ∧ matchesP '*' '>' ['*'] ['a','b'] = false := by decide


theorem cont_short (star gt : α) : ∀ (p q : List α), p.length < q.length → cont star gt p q = false := by
  intro p
  induction p with
  | nil => intro q h; cases q with
    | nil => simp at h
    | cons b q => simp [cont]
  | cons a p ih =>
    intro q h
    cases q with
    | nil => simp at h
    | cons b q =>
      simp only [List.length_cons] at h
      simp only [cont]
      have hq : q ≠ [] := by intro e; subst e; simp at h
      simp [hq, ih q (by omega)]

theorem cont_long (star gt : α) : ∀ (p q : List α), p.length > q.length → q.getLast? ≠ some gt →
    cont star gt p q = false := by
  intro p
  induction p with
  | nil => intro q h; simp at h
  | cons a p ih =>
    intro q h hl
    cases q with
    | nil => simp [cont]
    | cons b q =>
      simp only [List.length_cons] at h
      simp only [cont]
      by_cases hq : q = []
      · subst hq
        have hb : b ≠ gt := by intro e; subst e; simp at hl
        simp only [hb, and_false, if_false, true_and]
        cases p with
        | nil => simp at h
        | cons c r => simp [cont]
      · have hl' : q.getLast? ≠ some gt := by
          intro e; apply hl
          cases q with
          | nil => exact absurd rfl hq
          | cons c r => simpa [List.getLast?_cons_cons] using e
        simp [hq, ih q (by omega) hl']

theorem go_eq_cont (star gt : α) : ∀ (other my : List α), my.length ≥ other.length →
    (my.length > other.length → other.getLast? = some gt) →
    loopGo star gt other my = cont star gt my other := by
  intro other
  induction other with
  | nil =>
    intro my _ hl
    cases my with
    | nil => simp [loopGo, cont]
    | cons m ms => have := hl (by simp); simp at this
  | cons t ts ih =>
    intro my hlen hl
    cases my with
    | nil => simp at hlen
    | cons m ms =>
      simp only [List.length_cons] at hlen hl
      simp only [loopGo, cont]
      by_cases h1 : ts = [] ∧ t = gt
      · simp [h1]
      · simp only [h1, if_false]
        have hrec := ih ms (by omega) (by
          intro hgt
          have := hl (by omega)
          cases ts with
          | nil => simp at this; exact absurd ⟨rfl, this⟩ h1
          | cons c r => simpa [List.getLast?_cons_cons] using this)
        rw [← hrec]
        by_cases e1 : t = m <;> by_cases e2 : t = star <;> by_cases e3 : m = gt <;> simp [e1, e2, e3]

/-- the code as written in Go equals the recursive form used in `contained_iff` -/
theorem isContainedInGo_eq_cont (star gt : α) (my other : List α) :
    isContainedInGo star gt my other = cont star gt my other := by
  unfold isContainedInGo
  by_cases h1 : my.length > other.length ∧ other.getLast? ≠ some gt
  · rw [if_pos h1]
    exact (cont_long star gt my other h1.1 h1.2).symm
  · rw [if_neg h1]
    by_cases h2 : my.length < other.length
    · rw [if_pos h2]
      exact (cont_short star gt my other h2).symm
    · rw [if_neg h2]
      apply go_eq_cont star gt other my (by omega)
      intro hgt
      by_cases e : other.getLast? = some gt
      · exact e
      · exact absurd ⟨hgt, e⟩ h1


end

/-- token view -/
def hwToks (toks : List (List Char)) : Bool := toks.any (· = ['*']) || toks.getLast? = some ['>']

theorem split_star : splitOn '.' ['*'] = [['*']] := by decide
theorem split_gt : splitOn '.' ['>'] = [['>']] := by decide

theorem hw_sound (s : List Char) (h : hasWildCards s = true) : hwToks (splitOn '.' s) = true := by
  simp only [hasWildCards, Bool.or_eq_true, decide_eq_true_eq] at h
  rcases h with ((((h | h) | h) | h) | h) | h
  · obtain ⟨a, rfl⟩ := (isSuffixB_iff _ _).mp h
    have : a ++ ['.', '>'] = a ++ '.' :: ['>'] := rfl
    rw [this, splitOn_append, split_gt]
    simp [hwToks]
  · obtain ⟨a, b, rfl⟩ := (isInfixB_iff _ _).mp h
    have : a ++ ['.', '*', '.'] ++ b = a ++ '.' :: (['*'] ++ '.' :: b) := by simp
    rw [this, splitOn_append, splitOn_append, split_star]
    simp [hwToks]
  · obtain ⟨a, rfl⟩ := (isSuffixB_iff _ _).mp h
    have : a ++ ['.', '*'] = a ++ '.' :: ['*'] := rfl
    rw [this, splitOn_append, split_star]
    simp [hwToks]
  · obtain ⟨b, rfl⟩ := (isPrefixB_iff _ _).mp h
    have : ['*', '.'] ++ b = ['*'] ++ '.' :: b := rfl
    rw [this, splitOn_append, split_star]
    simp [hwToks]
  · subst h; decide
  · subst h; decide

theorem hw_complete (s : List Char) (h : hwToks (splitOn '.' s) = true) : hasWildCards s = true := by
  have hj := join_splitOn '.' s
  simp only [hwToks, Bool.or_eq_true, List.any_eq_true, decide_eq_true_eq] at h
  simp only [hasWildCards, Bool.or_eq_true, decide_eq_true_eq]
  rcases h with ⟨t, hm, rfl⟩ | hl
  · obtain ⟨pre, post, hsp⟩ := List.append_of_mem hm
    rw [hsp] at hj
    cases pre with
    | nil =>
      cases post with
      | nil => simp [join] at hj; left; right; exact hj.symm
      | cons u us =>
        simp only [List.nil_append] at hj
        rw [join_cons_ne '.' _ _ (by simp)] at hj
        left; left; right
        exact (isPrefixB_iff _ _).mpr ⟨join '.' (u :: us), by rw [← hj]; rfl⟩
    | cons p ps =>
      rw [join_append '.' (['*'] :: post) (by simp) (p :: ps) (by simp)] at hj
      cases post with
      | nil =>
        left; left; left; right
        exact (isSuffixB_iff _ _).mpr ⟨join '.' (p :: ps), by rw [← hj]; simp [join]⟩
      | cons u us =>
        have e : join '.' (['*'] :: u :: us) = ['*'] ++ '.' :: join '.' (u :: us) := rfl
        rw [e] at hj
        left; left; left; left; right
        exact (isInfixB_iff _ _).mpr ⟨join '.' (p :: ps), join '.' (u :: us), by rw [← hj]; simp⟩
  · -- last token is ">"
    have hne := splitOn_ne_nil '.' s
    obtain ⟨init, hsp⟩ : ∃ init, splitOn '.' s = init ++ [['>']] := by
      have := List.getLast?_eq_some_iff.mp hl
      obtain ⟨ys, hys⟩ := this
      exact ⟨ys, hys⟩
    rw [hsp] at hj
    cases init with
    | nil => simp [join] at hj; right; exact hj.symm
    | cons p ps =>
      rw [join_append '.' [['>']] (by simp) (p :: ps) (by simp)] at hj
      left; left; left; left; left
      exact (isSuffixB_iff _ _).mpr ⟨join '.' (p :: ps), by rw [← hj]; simp [join]⟩

/-- C16, second half: the string patterns and the token view coincide for EVERY string -/
theorem hasWildCards_iff (s : List Char) : hasWildCards s = hwToks (splitOn '.' s) := by
  cases h : hasWildCards s with
  | true => exact (hw_sound s h).symm
  | false =>
    cases h2 : hwToks (splitOn '.' s) with
    | false => rfl
    | true => rw [hw_complete s h2] at h; cases h


end Jwt
