import JwtModel.HashId
import JwtProofs.Text
/-! `cleanSubject` keeps exactly the tokens before the first wildcard token (ported spike). -/
namespace Jwt

/-- spec: the tokens before the first wildcard -/
theorem cleanToks_spec : ∀ (toks : List (List Char)) (pre : List (List Char)), cleanToks toks = some pre →
    pre = toks.takeWhile (fun t => !isWild t) ∧ ∃ w rest, toks = pre ++ w :: rest ∧ isWild w = true := by
  intro toks
  induction toks with
  | nil => intro pre h; simp [cleanToks] at h
  | cons t ts ih =>
    intro pre h
    simp only [cleanToks] at h
    by_cases hw : isWild t = true
    · simp only [hw, if_true, Option.some.injEq] at h
      subst h
      exact ⟨by simp [List.takeWhile, hw], t, ts, by simp, hw⟩
    · simp only [hw, if_false, Option.map_eq_some_iff, Bool.false_eq_true] at h
      obtain ⟨p, hp, rfl⟩ := h
      obtain ⟨h1, w, rest, h2, h3⟩ := ih p hp
      have hw' : isWild t = false := by simpa using hw
      refine ⟨by simp [List.takeWhile, hw', ← h1], w, rest, by simp [h2], h3⟩

theorem cleanToks_none : ∀ (toks : List (List Char)), cleanToks toks = none ↔ ∀ t ∈ toks, isWild t = false := by
  intro toks
  induction toks with
  | nil => simp [cleanToks]
  | cons t ts ih =>
    simp only [cleanToks]
    by_cases hw : isWild t = true
    · simp [hw]
    · have hw' : isWild t = false := by simpa using hw
      simp [hw', ih]

/-- a subject without wildcard tokens is its own identity prefix -/
theorem cleanSubject_literal (s : List Char) (h : ∀ t ∈ splitOn '.' s, isWild t = false) : cleanSubject s = s := by
  simp only [cleanSubject]
  cases hs : splitOn '.' s with
  | nil => rfl
  | cons t ts =>
    rw [hs] at h
    have ht : isWild t = false := h t (by simp)
    simp only [ht, Bool.false_eq_true, if_false]
    rw [(cleanToks_none (t :: ts)).mpr h]

/-- a leading wildcard maps to the fixed placeholder -/
theorem cleanSubject_leading (s : List Char) (t : List Char) (ts) (hs : splitOn '.' s = t :: ts) (hw : isWild t = true) :
    cleanSubject s = ['_'] := by
  simp [cleanSubject, hs, hw]


end Jwt
