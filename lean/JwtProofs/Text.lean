import JwtModel.Text
/-! Lemmas about `splitOn`, `join`, prefix/infix/suffix tests (ported from the design-round spikes). -/
namespace Jwt

theorem splitOn_ne_nil (sep : Char) (s : List Char) : splitOn sep s ≠ [] := by
  induction s with
  | nil => simp [splitOn]
  | cons c cs ih =>
    simp only [splitOn]
    split
    · simp
    · split <;> simp

theorem join_splitOn (sep : Char) (s : List Char) : join sep (splitOn sep s) = s := by
  induction s with
  | nil => simp [splitOn, join]
  | cons c cs ih =>
    simp only [splitOn]
    by_cases h : c = sep
    · simp only [h, if_true]
      cases hs : splitOn sep cs with
      | nil => exact absurd hs (splitOn_ne_nil sep cs)
      | cons t ts =>
        rw [hs] at ih
        simp [join, ih]
    · simp only [h, if_false]
      cases hs : splitOn sep cs with
      | nil => exact absurd hs (splitOn_ne_nil sep cs)
      | cons t ts =>
        rw [hs] at ih
        cases ts with
        | nil => simp [join] at ih ⊢; exact ih
        | cons u us => simp [join] at ih ⊢; exact ih

theorem splitOn_token_no_sep (sep : Char) (s : List Char) : ∀ t ∈ splitOn sep s, sep ∉ t := by
  induction s with
  | nil => intro t ht; simp [splitOn] at ht; subst ht; simp
  | cons c cs ih =>
    intro t ht
    simp only [splitOn] at ht
    by_cases h : c = sep
    · simp only [h, if_true, List.mem_cons] at ht
      rcases ht with rfl | ht
      · simp
      · exact ih t ht
    · simp only [h, if_false] at ht
      cases hs : splitOn sep cs with
      | nil => exact absurd hs (splitOn_ne_nil sep cs)
      | cons u us =>
        rw [hs] at ht ih
        simp only [List.mem_cons] at ht
        rcases ht with rfl | ht
        · intro hm
          simp only [List.mem_cons] at hm
          rcases hm with hm | hm
          · exact h hm.symm
          · exact ih u (by simp) hm
        · exact ih t (by simp [ht])

theorem splitOn_no_sep (sep : Char) : ∀ (t : List Char), sep ∉ t → splitOn sep t = [t] := by
  intro t
  induction t with
  | nil => intro _; rfl
  | cons c cs ih =>
    intro h
    have hc : c ≠ sep := fun e => h (by simp [e])
    have hcs : sep ∉ cs := fun hm => h (by simp [hm])
    simp [splitOn, hc, ih hcs]

theorem splitOn_append_sep (sep : Char) (rest : List Char) : ∀ (t : List Char), sep ∉ t →
    splitOn sep (t ++ sep :: rest) = t :: splitOn sep rest := by
  intro t
  induction t with
  | nil => intro _; simp [splitOn]
  | cons c cs ih =>
    intro h
    have hc : c ≠ sep := fun e => h (by simp [e])
    have hcs : sep ∉ cs := fun hm => h (by simp [hm])
    simp [splitOn, hc, ih hcs]

theorem splitOn_join (sep : Char) : ∀ (ts : List (List Char)), ts ≠ [] → (∀ t ∈ ts, sep ∉ t) →
    splitOn sep (join sep ts) = ts := by
  intro ts
  induction ts with
  | nil => intro h; exact absurd rfl h
  | cons t ts ih =>
    intro _ hsep
    have ht : sep ∉ t := hsep t (by simp)
    cases ts with
    | nil => simp [join, splitOn_no_sep sep t ht]
    | cons u us =>
      have := ih (by simp) (fun x hx => hsep x (by simp [hx]))
      simp only [join] at this ⊢
      rw [splitOn_append_sep sep _ t ht, this]

/-- the separator glues two independent splits -/
theorem splitOn_append (sep : Char) (b : List Char) : ∀ a : List Char,
    splitOn sep (a ++ sep :: b) = splitOn sep a ++ splitOn sep b := by
  intro a
  induction a with
  | nil => simp [splitOn]
  | cons c cs ih =>
    by_cases h : c = sep
    · simp [splitOn, h, ih]
    · simp only [List.cons_append, splitOn, h, if_false, ih]
      cases hs : splitOn sep cs with
      | nil => exact absurd hs (splitOn_ne_nil sep cs)
      | cons t ts => simp

theorem isPrefixB_iff (pat s : List Char) : isPrefixB pat s = true ↔ ∃ b, s = pat ++ b := by
  induction pat generalizing s with
  | nil => simp [isPrefixB]
  | cons p ps ih =>
    cases s with
    | nil => simp [isPrefixB]
    | cons c cs =>
      simp only [isPrefixB, Bool.and_eq_true, decide_eq_true_eq, ih, List.cons_append, List.cons.injEq]
      constructor
      · rintro ⟨rfl, b, rfl⟩; exact ⟨b, rfl, rfl⟩
      · rintro ⟨b, rfl, rfl⟩; exact ⟨rfl, b, rfl⟩

theorem isInfixB_iff (pat s : List Char) : isInfixB pat s = true ↔ ∃ a b, s = a ++ pat ++ b := by
  induction s with
  | nil =>
    simp only [isInfixB, isPrefixB_iff]
    constructor
    · rintro ⟨b, hb⟩; exact ⟨[], b, by simpa using hb⟩
    · rintro ⟨a, b, h⟩
      have : a = [] ∧ pat = [] ∧ b = [] := by
        have := congrArg List.length h; simp at this
        refine ⟨List.eq_nil_of_length_eq_zero (by omega), List.eq_nil_of_length_eq_zero (by omega), List.eq_nil_of_length_eq_zero (by omega)⟩
      exact ⟨b, by simp [this.2.1, this.2.2]⟩
  | cons c cs ih =>
    simp only [isInfixB, Bool.or_eq_true, isPrefixB_iff, ih]
    constructor
    · rintro (⟨b, hb⟩ | ⟨a, b, hb⟩)
      · exact ⟨[], b, by simpa using hb⟩
      · exact ⟨c :: a, b, by simp [hb]⟩
    · rintro ⟨a, b, h⟩
      cases a with
      | nil => left; exact ⟨b, by simpa using h⟩
      | cons x xs =>
        right
        simp only [List.cons_append, List.cons.injEq] at h
        exact ⟨xs, b, h.2⟩

theorem isSuffixB_iff (pat s : List Char) : isSuffixB pat s = true ↔ ∃ a, s = a ++ pat := by
  simp only [isSuffixB, isPrefixB_iff]
  constructor
  · rintro ⟨b, hb⟩
    refine ⟨b.reverse, ?_⟩
    have := congrArg List.reverse hb
    simpa using this
  · rintro ⟨a, rfl⟩
    exact ⟨a.reverse, by simp⟩

theorem join_cons_ne (sep : Char) (t : List Char) (ts : List (List Char)) (h : ts ≠ []) :
    join sep (t :: ts) = t ++ sep :: join sep ts := by
  cases ts with
  | nil => exact absurd rfl h
  | cons u us => rfl

theorem join_append (sep : Char) (x : List (List Char)) (hx : x ≠ []) : ∀ pre : List (List Char), pre ≠ [] →
    join sep (pre ++ x) = join sep pre ++ sep :: join sep x := by
  intro pre
  induction pre with
  | nil => intro h; exact absurd rfl h
  | cons t ts ih =>
    intro _
    cases ts with
    | nil =>
      have : ([t] ++ x) = t :: x := rfl
      rw [this, join_cons_ne sep t x hx]; simp [join]
    | cons u us =>
      have h1 := ih (by simp)
      have : (t :: u :: us) ++ x = t :: ((u :: us) ++ x) := rfl
      rw [this, join_cons_ne sep t _ (by simp), h1, join_cons_ne sep t (u :: us) (by simp)]
      simp [List.append_assoc]


/-! ### Case mapping and trimming -/
theorem char_eq_of_toNat {c d : Char} (h : c.toNat = d.toNat) : c = d := by
  rw [← Char.ofNat_toNat c, ← Char.ofNat_toNat d, h]

theorem toLower_toNat (c : Char) : c.toLower.toNat = if 65 ≤ c.toNat ∧ c.toNat ≤ 90 then c.toNat + 32 else c.toNat := by
  simp only [Char.toLower]
  split
  · next h =>
    simp only [UInt32.le_iff_toNat_le, seval, ge_iff_le] at h
    have h' : 65 ≤ c.toNat ∧ c.toNat ≤ 90 := h
    rw [if_pos h']
    show (c.val + 32).toNat = c.val.toNat + 32
    rw [UInt32.toNat_add]
    have : c.val.toNat ≤ 90 := h.2
    simp
    omega
  · next h =>
    simp only [UInt32.le_iff_toNat_le, seval, ge_iff_le] at h
    have h' : ¬ (65 ≤ c.toNat ∧ c.toNat ≤ 90) := h
    rw [if_neg h']

theorem goLowerChar_toNat (c : Char) : (goLowerChar c).toNat =
    if c.toNat = 0x212a then 107 else if c.toNat = 0x130 then 105
    else if 65 ≤ c.toNat ∧ c.toNat ≤ 90 then c.toNat + 32 else c.toNat := by
  unfold goLowerChar
  split
  · rfl
  · split
    · rfl
    · exact toLower_toNat c

theorem goLowerChar_idem (c : Char) : goLowerChar (goLowerChar c) = goLowerChar c := by
  apply char_eq_of_toNat
  rw [goLowerChar_toNat (goLowerChar c), goLowerChar_toNat c]
  split <;> (try split) <;> (try split) <;> (try split) <;> (try split) <;> (try split) <;> omega

theorem isGoSpace_goLowerChar (c : Char) : isGoSpace (goLowerChar c) = isGoSpace c := by
  have h := goLowerChar_toNat c
  simp only [isGoSpace]
  rw [h]
  split
  · next e => simp [e]
  · split
    · next e => simp [e]
    · split
      · next e1 e2 e3 =>
        apply Bool.eq_iff_iff.mpr
        simp only [Bool.or_eq_true, decide_eq_true_eq, Bool.and_eq_true]
        omega
      · rfl
theorem dropWhile_idem {α} (p : α → Bool) (l : List α) : (l.dropWhile p).dropWhile p = l.dropWhile p := by
  induction l with
  | nil => rfl
  | cons a l ih =>
    simp only [List.dropWhile_cons]
    split
    · exact ih
    · next h => simp [List.dropWhile_cons, h]

theorem dropWhile_eq_self_of_head {α} (p : α → Bool) (l : List α) (h : ∀ x, l.head? = some x → p x = false) :
    l.dropWhile p = l := by
  cases l with
  | nil => rfl
  | cons a l => simp [List.dropWhile_cons, h a rfl]

theorem head_dropWhile {α} (p : α → Bool) (l : List α) : ∀ x, (l.dropWhile p).head? = some x → p x = false := by
  induction l with
  | nil => intro x h; simp at h
  | cons a l ih =>
    intro x h
    simp only [List.dropWhile_cons] at h
    split at h
    · exact ih x h
    · next hp => simp at h; subst h; simpa using hp

theorem trimRight_prefix (s : Str) : trimRight s <+: s := by
  unfold trimRight
  have := List.dropWhile_suffix isGoSpace (l := s.reverse)
  have h2 := List.reverse_prefix.mpr this
  simpa using h2

theorem trimRight_idem (s : Str) : trimRight (trimRight s) = trimRight s := by
  simp [trimRight, dropWhile_idem]

theorem head_of_prefix {α} {l' l : List α} (h : l' <+: l) (hne : l' ≠ []) : l'.head? = l.head? := by
  obtain ⟨t, rfl⟩ := h
  cases l' with
  | nil => exact absurd rfl hne
  | cons a r => rfl

theorem trimSpace_idem (s : Str) : trimSpace (trimSpace s) = trimSpace s := by
  unfold trimSpace
  have h1 : trimLeft (trimRight (trimLeft s)) = trimRight (trimLeft s) := by
    unfold trimLeft
    apply dropWhile_eq_self_of_head
    intro x hx
    by_cases hne : trimRight (List.dropWhile isGoSpace s) = []
    · rw [hne] at hx; simp at hx
    · rw [head_of_prefix (trimRight_prefix _) hne] at hx
      exact head_dropWhile isGoSpace s x hx
  rw [h1, trimRight_idem]

theorem trimSpace_map (f : Char → Char) (hf : ∀ c, isGoSpace (f c) = isGoSpace c) (s : Str) :
    trimSpace (s.map f) = (trimSpace s).map f := by
  have hc : isGoSpace ∘ f = isGoSpace := funext hf
  simp only [trimSpace, trimLeft, trimRight, List.dropWhile_map, hc, ← List.map_reverse]

theorem goLower_idem (s : Str) : goLower (goLower s) = goLower s := by
  simp [goLower, List.map_map, Function.comp_def, goLowerChar_idem]

/-- `TagList`'s normaliser is idempotent -/
theorem normTag_idem (s : Str) : goLower (trimSpace (goLower (trimSpace s))) = goLower (trimSpace s) := by
  have := trimSpace_map goLowerChar isGoSpace_goLowerChar (trimSpace s)
  unfold goLower at *
  rw [this, trimSpace_idem, List.map_map]
  simp [Function.comp_def, goLowerChar_idem]

end Jwt
