import JwtModel.Utf8
/-!
# UTF-8: `decode (encode s) = some s` for every string (a `Char` is a Unicode scalar value)
-/
namespace Jwt.Utf8
open List

theorem char_valid (c : Char) : c.toNat < 0xD800 ∨ (0xDFFF < c.toNat ∧ c.toNat < 0x110000) := by
  have := c.valid
  simp only [UInt32.isValidChar, Nat.isValidChar] at this
  exact this

/-- **One character.** -/
theorem decodeAux_encodeChar (f : Nat) (c : Char) (rest : List Nat) (acc : Str) :
    decodeAux (f+1) (encodeChar c ++ rest) acc = decodeAux f rest (c :: acc) := by
  have hv := char_valid c
  unfold encodeChar
  simp only []
  by_cases h1 : c.toNat < 0x80
  · simp only [h1, if_true, cons_append, nil_append, decodeAux]
    rw [Char.ofNat_toNat]
  · simp only [h1, if_false]
    by_cases h2 : c.toNat < 0x800
    · simp only [h2, if_true, cons_append, nil_append, decodeAux]
      have a1 : ¬ (0xC0 + c.toNat / 64 < 0x80) := by omega
      have a2 : 0xC2 ≤ 0xC0 + c.toNat / 64 ∧ 0xC0 + c.toNat / 64 < 0xE0 := by omega
      have a3 : isCont (0x80 + c.toNat % 64) = true := by simp [isCont]; omega
      have a4 : (0xC0 + c.toNat / 64 - 0xC0) * 64 + (0x80 + c.toNat % 64 - 0x80) = c.toNat := by omega
      simp only [a1, a2, a3, a4, if_false, if_true, and_self]
      rw [Char.ofNat_toNat]
    · simp only [h2, if_false]
      by_cases h3 : c.toNat < 0x10000
      · simp only [h3, if_true, cons_append, nil_append, decodeAux]
        have a1 : ¬ (0xE0 + c.toNat / 4096 < 0x80) := by omega
        have a2 : ¬ (0xC2 ≤ 0xE0 + c.toNat / 4096 ∧ 0xE0 + c.toNat / 4096 < 0xE0) := by omega
        have a3 : 0xE0 ≤ 0xE0 + c.toNat / 4096 ∧ 0xE0 + c.toNat / 4096 < 0xF0 := by omega
        have a4 : isCont (0x80 + c.toNat / 64 % 64) = true := by simp [isCont]; omega
        have a5 : isCont (0x80 + c.toNat % 64) = true := by simp [isCont]; omega
        have a6 : (0xE0 + c.toNat / 4096 - 0xE0) * 4096 + (0x80 + c.toNat / 64 % 64 - 0x80) * 64 + (0x80 + c.toNat % 64 - 0x80) = c.toNat := by omega
        have a7 : 0x800 ≤ c.toNat := by omega
        have a8 : ¬ (0xD800 ≤ c.toNat ∧ c.toNat < 0xE000) := by omega
        simp only [a1, a2, a3, a4, a5, a6, a7, a8, if_false, if_true, and_self, not_false_eq_true, and_true]
        rw [Char.ofNat_toNat]
      · simp only [h3, if_false, cons_append, nil_append, decodeAux]
        have hlt : c.toNat < 0x110000 := by omega
        have a1 : ¬ (0xF0 + c.toNat / 262144 < 0x80) := by omega
        have a2 : ¬ (0xC2 ≤ 0xF0 + c.toNat / 262144 ∧ 0xF0 + c.toNat / 262144 < 0xE0) := by omega
        have a3 : ¬ (0xE0 ≤ 0xF0 + c.toNat / 262144 ∧ 0xF0 + c.toNat / 262144 < 0xF0) := by omega
        have a4 : 0xF0 ≤ 0xF0 + c.toNat / 262144 ∧ 0xF0 + c.toNat / 262144 < 0xF5 := by omega
        have a5 : isCont (0x80 + c.toNat / 4096 % 64) = true := by simp [isCont]; omega
        have a6 : isCont (0x80 + c.toNat / 64 % 64) = true := by simp [isCont]; omega
        have a7 : isCont (0x80 + c.toNat % 64) = true := by simp [isCont]; omega
        have a8 : (0xF0 + c.toNat / 262144 - 0xF0) * 262144 + (0x80 + c.toNat / 4096 % 64 - 0x80) * 4096 +
            (0x80 + c.toNat / 64 % 64 - 0x80) * 64 + (0x80 + c.toNat % 64 - 0x80) = c.toNat := by omega
        have a9 : 0x10000 ≤ c.toNat := by omega
        simp only [a1, a2, a3, a4, a5, a6, a7, a8, a9, hlt, if_false, if_true, and_self]
        rw [Char.ofNat_toNat]

theorem encodeChar_length_pos (c : Char) : 1 ≤ (encodeChar c).length := by
  unfold encodeChar; simp only []; repeat' split
  all_goals simp

theorem decodeAux_encode : ∀ (s : Str) (f : Nat) (acc : Str), s.length + 1 ≤ f →
    decodeAux f (encode s) acc = some (acc.reverse ++ s) := by
  intro s
  induction s with
  | nil =>
    intro f acc hf
    obtain ⟨f', rfl⟩ : ∃ f', f = f' + 1 := ⟨f - 1, by simp at hf; omega⟩
    simp [encode, decodeAux]
  | cons c s ih =>
    intro f acc hf
    obtain ⟨f', rfl⟩ : ∃ f', f = f' + 1 := ⟨f - 1, by simp at hf; omega⟩
    have : encode (c :: s) = encodeChar c ++ encode s := by simp [encode, flatMap_cons]
    rw [this, decodeAux_encodeChar, ih f' (c :: acc) (by simp at hf ⊢; omega)]
    simp

theorem encode_length (s : Str) : s.length ≤ (encode s).length := by
  induction s with
  | nil => simp [encode]
  | cons c s ih =>
    have := encodeChar_length_pos c
    simp only [encode, flatMap_cons, length_append, length_cons] at ih ⊢
    omega

/-- **UTF-8 round trip.** -/
theorem decode_encode (s : Str) : decode (encode s) = some s := by
  unfold decode
  rw [decodeAux_encode s _ [] (by have := encode_length s; omega)]
  simp

/-- every byte the encoder emits is a byte -/
theorem encode_bytes (s : Str) : ∀ b ∈ encode s, b < 256 := by
  intro b hb
  simp only [encode, mem_flatMap] at hb
  obtain ⟨c, _, hc⟩ := hb
  have hv := char_valid c
  unfold encodeChar at hc
  simp only [] at hc
  repeat' split at hc
  all_goals (simp only [mem_cons, not_mem_nil, or_false] at hc; omega)

end Jwt.Utf8
