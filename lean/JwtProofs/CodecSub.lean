import JwtProofs.CodecRT
/-!
# Decoding an object into a *smaller* struct: members that match no field are skipped

Needed for `identOf` (the `identifier` struct reads `type`, `nats.type`, `nats.version` out of a full claims
payload) and, more generally, for every decode of a payload through a struct that declares only some of its keys.
-/
namespace Jwt.Codec
open Jwt Jwt.Codec List

variable (env : CodecEnv)

theorem findField_none_not_key (fs : List (Str × Bool × Ty)) (k : Str) (h : findField fs k = none) : k ∉ fs.map (·.1) := by
  intro hk
  obtain ⟨x, hx, rfl⟩ := mem_map.mp hk
  unfold findField at h
  cases h1 : fs.find? (fun f => decide (f.1 = x.1)) with
  | some y => simp [h1] at h
  | none =>
    have := find?_eq_none.mp h1 x hx
    simp at this

/-- **Struct lemma with skipped members.** -/
theorem unmarshalFields_skip (allfs : List (Str × Bool × Ty)) (hnd : (allfs.map (·.1)).Nodup) (res : Str → Val) (G : Nat) :
    ∀ (kv : List (Str × Json)) (cur : List (Str × Val)) (F : Nat),
      (kv.map (·.1)).Nodup → (∀ c ∈ cur, c.1 ∈ allfs.map (·.1)) →
      (∀ e ∈ kv, findField allfs e.1 = none ∨ ∃ om t b, (e.1, om, t) ∈ allfs ∧ getField cur e.1 = some b ∧
        ∀ F', G ≤ F' → unmarshal env F' t e.2 b = .ok (res e.1)) →
      G + kv.length + 1 ≤ F →
      unmarshalFields env F allfs kv cur =
        .ok (cur.map fun c => if c.1 ∈ kv.map (·.1) then (c.1, res c.1) else c) := by
  intro kv
  induction kv with
  | nil =>
    intro cur F _ _ _ hF
    obtain ⟨F', rfl⟩ : ∃ F', F = F' + 1 := ⟨F - 1, by omega⟩
    simp [unmarshalFields]
  | cons e kv ih =>
    intro cur F hkn hcur hall hF
    obtain ⟨k, j⟩ := e
    obtain ⟨F', rfl⟩ : ∃ F', F = F' + 1 := ⟨F - 1, by omega⟩
    simp only [map_cons, nodup_cons] at hkn
    rcases hall (k, j) (by simp) with hskip | ⟨om, t, b, hmem, hb, hun⟩
    · -- no field of this name: skipped
      have hskip' : findField allfs k = none := hskip
      have hstep : unmarshalFields env (F'+1) allfs ((k, j) :: kv) cur = unmarshalFields env F' allfs kv cur := by
        simp [unmarshalFields, hskip']
      rw [hstep]
      rw [ih cur F' hkn.2 hcur (fun e he => hall e (mem_cons_of_mem _ he)) (by simp at hF ⊢; omega)]
      congr 1
      apply map_congr_left
      intro c hc
      have hne : c.1 ≠ k := by
        intro e; subst e
        exact findField_none_not_key allfs c.1 hskip' (hcur c hc)
      simp only [map_cons, mem_cons, hne, false_or]
    · have hff := findField_of_mem allfs hnd k om t hmem
      have hu := hun F' (by simp at hF; omega)
      simp only [unmarshalFields, hff, hb, hu, bind, Res.bind]
      rw [ih (setField cur k (res k)) F' hkn.2]
      · congr 1
        rw [setField_map]
        apply map_congr_left
        intro c _
        by_cases hc : c.1 = k
        · simp [hc, hkn.1]
        · simp only [hc, if_false, map_cons, mem_cons, false_or]
      · intro c hc
        unfold setField at hc
        obtain ⟨c0, hc0, rfl⟩ := mem_map.mp hc
        by_cases h0 : c0.1 = k
        · simp only [h0, if_true]; exact mem_map.mpr ⟨_, hmem, rfl⟩
        · simp only [h0, if_false]; exact hcur c0 hc0
      · intro e he
        rcases hall e (mem_cons_of_mem _ he) with hs | ⟨om', t', b', hm', hb', hun'⟩
        · exact Or.inl hs
        · have hne : e.1 ≠ k := by
            intro heq; apply hkn.1; rw [← heq]; exact mem_map_of_mem he
          exact Or.inr ⟨om', t', b', hm', by rw [getField_setField_ne _ _ _ _ hne]; exact hb', hun'⟩
      · simp at hF ⊢; omega

end Jwt.Codec
