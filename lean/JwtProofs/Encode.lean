import JwtModel.Encode
import JwtProofs.Val
/-! Inversion and field lemmas for `encode`. -/
namespace Jwt
open Jwt.Codec

/-- the claims object after the three standard stamps, before the id is known -/
def stamped (env : EncEnv) (v : Val) : Val :=
  ((v.set "iss" (.str env.pub)).set "iat" (.int env.now)).set "jti" (.str [])

theorem encodeParts_inv (env : EncEnv) (k : Kind) (v v2 : Val) (hText pText : Str)
    (h : encodeParts env k v = .ok (v2, hText, pText)) :
    (v.field "sub").asStr ≠ [] ∧
    roleGate Gen.V2.encodeArms (expectedPrefixes k) env.pub = true ∧
    ∃ id, hashOf env (stamped env v) = .ok id ∧
      v2 = updateVersion k ((stamped env v).set "jti" (.str id)) ∧
      liftRes (encodeText codecEnv Gen.V2.Header encodeHeader) = .ok hText ∧
      liftRes (encodeText codecEnv (schemaOf k) v2) = .ok pText := by
  unfold encodeParts at h
  split at h
  · cases h
  · next hsub =>
    cases hh : liftRes (encodeText codecEnv Gen.V2.Header encodeHeader) with
    | error e => simp [hh, bind, Except.bind] at h
    | ok ht =>
      simp only [hh, bind, Except.bind] at h
      split at h
      · cases h
      · next hg =>
        cases hid : hashOf env (stamped env v) with
        | error e => simp [stamped] at hid; simp [hid] at h
        | ok id =>
          have hid' := hid
          simp only [stamped] at hid'
          simp only [hid'] at h
          cases hp : liftRes (encodeText codecEnv (schemaOf k)
              (updateVersion k ((((v.set "iss" (.str env.pub)).set "iat" (.int env.now)).set "jti" (.str [])).set "jti" (.str id)))) with
          | error e => simp [hp] at h
          | ok pt =>
            simp only [hp, pure, Except.pure, Except.ok.injEq, Prod.mk.injEq] at h
            obtain ⟨rfl, rfl, rfl⟩ := h
            refine ⟨hsub, by simpa using hg, id, rfl, rfl, rfl, hp⟩

theorem encode_inv (env : EncEnv) (k : Kind) (v v' : Val) (tok : Str) (h : encode env k v = .ok (v', tok)) :
    ∃ v0 id hText pText,
      preEncode env k v = .ok v0 ∧ (v0.field "sub").asStr ≠ [] ∧
      roleGate Gen.V2.encodeArms (expectedPrefixes k) env.pub = true ∧
      hashOf env (stamped env v0) = .ok id ∧
      v' = updateVersion k ((stamped env v0).set "jti" (.str id)) ∧
      liftRes (encodeText codecEnv (schemaOf k) v') = .ok pText ∧
      liftRes (encodeText codecEnv Gen.V2.Header encodeHeader) = .ok hText ∧
      tok = b64Text hText ++ '.' :: b64Text pText ++ '.' :: env.signB64 (b64Text hText ++ '.' :: b64Text pText) := by
  unfold encode at h
  cases hp : preEncode env k v with
  | error e => simp [hp, bind, Except.bind] at h
  | ok v0 =>
    simp only [hp, bind, Except.bind, doEncode] at h
    cases hparts : encodeParts env k v0 with
    | error e => simp [hparts] at h
    | ok r =>
      obtain ⟨v2, hText, pText⟩ := r
      simp only [hparts, pure, Except.pure, Except.ok.injEq, Prod.mk.injEq] at h
      obtain ⟨rfl, rfl⟩ := h
      obtain ⟨hsub, hg, id, hid, hv, hh, hpt⟩ := encodeParts_inv env k v0 v2 hText pText hparts
      exact ⟨v0, id, hText, pText, rfl, hsub, hg, hid, hv, hpt, hh, rfl⟩

/-- `preEncode` touches only the `nats` section -/
theorem preEncode_top (env : EncEnv) (k : Kind) (v v0 : Val) (h : preEncode env k v = .ok v0) (key : String)
    (hk : key.toList ≠ "nats".toList) : v0.field key = v.field key := by
  unfold preEncode at h
  cases k <;> simp only at h
  all_goals first
    | (split at h
       · cases h
       · first
         | (split at h
            · cases h
            · injection h with h; subst h; exact Val.field_set_ne _ _ _ _ hk)
         | (injection h with h; subst h; exact Val.field_set_ne _ _ _ _ hk))
    | (injection h with h; subst h; first | rfl | exact Val.field_set_ne _ _ _ _ hk)

end Jwt
