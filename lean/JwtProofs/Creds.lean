import JwtModel.Creds
import JwtProofs.Text
/-! Lemmas about the hand matcher for `userConfigRE`: where matches can start, what a block yields, fuel independence. -/
namespace Jwt.Creds
open Jwt

theorem splitNL_line (x rest : Str) (hx : ∀ c ∈ x, notNL c = true) :
    splitNL (x ++ '\n' :: rest) = some (x, rest) := by
  have h1 : (x ++ '\n' :: rest).dropWhile notNL = '\n' :: rest := by
    rw [List.dropWhile_append_of_pos hx]; simp [List.dropWhile, notNL]
  have h2 : (x ++ '\n' :: rest).takeWhile notNL = x := by
    rw [List.takeWhile_append_of_pos hx]; simp [List.takeWhile, notNL]
  simp [splitNL, h1, h2]

theorem splitNL_length (l a b : Str) (h : splitNL l = some (a, b)) : b.length < l.length := by
  unfold splitNL at h
  split at h
  · cases h
  · next c r heq =>
    injection h with h
    injection h with _ h2
    subst h2
    have := List.dropWhile_suffix (p := notNL) (l := l)
    rw [heq] at this
    have := this.length_le
    simp at this
    omega

theorem dashX_head {x : Str} (h : dashX x = true) : ∃ r, x = '-' :: r := by
  simp only [dashX, Bool.and_eq_true, decide_eq_true_eq] at h
  obtain ⟨⟨hl, ht⟩, _⟩ := h
  match x, hl, ht with
  | a :: r, _, ht =>
    simp [List.take, isDash] at ht
    exact ⟨r, by rw [ht.1]⟩

theorem dashLine_head {x : Str} (h : dashLine x = true) : ∃ r, x = '-' :: r := by
  unfold dashLine at h
  simp only [Bool.or_eq_true, Bool.and_eq_true] at h
  rcases h with h | ⟨_, h⟩
  · exact dashX_head h
  · obtain ⟨r, hr⟩ := dashX_head h
    cases x with
    | nil => simp at hr
    | cons a t =>
      cases t with
      | nil => simp at hr
      | cons b t2 =>
        simp only [List.dropLast_cons_cons, List.cons.injEq] at hr
        exact ⟨b :: t2, by rw [hr.1]⟩

/-- no match can start where, after leading blanks, the text does not begin with a dash -/
theorem matchHere_nodash (l : Str) (h : ∀ c r, l.dropWhile isSpace = c :: r → c ≠ '-') : matchHere l = none := by
  unfold matchHere
  cases hs : splitNL (l.dropWhile isSpace) with
  | none => rfl
  | some p =>
    obtain ⟨opn, l2⟩ := p
    simp only
    cases hd : dashLine opn with
    | false => simp
    | true =>
      exfalso
      obtain ⟨r, hr⟩ := dashLine_head hd
      unfold splitNL at hs
      split at hs
      · cases hs
      · next c0 r0 heq =>
        injection hs with hs
        injection hs with h1 _
        rw [hr] at h1
        cases hl : l.dropWhile isSpace with
        | nil => rw [hl] at h1; simp at h1
        | cons c t =>
          rw [hl] at h1
          have hc := h c t hl
          simp only [List.takeWhile_cons] at h1
          split at h1
          · injection h1 with e _; exact hc e
          · cases h1

theorem matchHere_skip_space (ws l : Str) (h : ∀ c ∈ ws, isSpace c = true) : matchHere (ws ++ l) = matchHere l := by
  unfold matchHere
  rw [List.dropWhile_append_of_pos h]

theorem matchHere_length (l cap rest : Str) (h : matchHere l = some (cap, rest)) : rest.length < l.length := by
  unfold matchHere at h
  have hsuf := (List.dropWhile_suffix (p := isSpace) (l := l)).length_le
  cases hs : splitNL (l.dropWhile isSpace) with
  | none => simp [hs] at h
  | some p =>
    obtain ⟨opn, l2⟩ := p
    have h1 := splitNL_length _ _ _ hs
    simp only [hs] at h
    split at h
    · cases h
    · split at h
      · cases h
      · have hdw := (List.dropWhile_suffix (p := isTok) (l := l2)).length_le
        split at h
        · next l5 heq =>
          have h4 : l5.length < l2.length := by
            split at heq
            · next r hr => rw [hr, heq] at hdw; simp at hdw; omega
            · rw [heq] at hdw; simp at hdw; omega
          split at h
          · next cls l6 hs2 =>
            have := splitNL_length _ _ _ hs2
            split at h
            · injection h with h; injection h with _ e; subst e; omega
            · cases h
          · split at h
            · injection h with h; injection h with _ e; subst e; simp; omega
            · cases h
        · cases h
end Jwt.Creds
namespace Jwt.Creds
open Jwt

theorem findBlocks_fuel : ∀ (f g : Nat) (l : Str), l.length < f → l.length < g → findBlocks f l = findBlocks g l := by
  intro f
  induction f with
  | zero => intro g l h; omega
  | succ f ih =>
    intro g l hf hg
    cases g with
    | zero => omega
    | succ g =>
      simp only [findBlocks]
      cases hm : matchHere l with
      | some p =>
        obtain ⟨cap, rest⟩ := p
        have := matchHere_length l cap rest hm
        simp only
        rw [ih g rest (by omega) (by omega)]
      | none =>
        cases l with
        | nil => rfl
        | cons c t =>
          simp only
          simp only [List.length_cons] at hf hg
          exact ih g t (by omega) (by omega)

theorem blocks_of_match (l cap rest : Str) (h : matchHere l = some (cap, rest)) : blocks l = cap :: blocks rest := by
  unfold blocks
  have := matchHere_length l cap rest h
  have e : findBlocks (l.length + 1) l = cap :: findBlocks l.length rest := by
    simp only [findBlocks, h]
  rw [e, findBlocks_fuel l.length (rest.length + 1) rest (by omega) (by omega)]

theorem blocks_skip (c : Char) (t : Str) (h : matchHere (c :: t) = none) : blocks (c :: t) = blocks t := by
  unfold blocks
  have e : findBlocks ((c :: t).length + 1) (c :: t) = findBlocks (c :: t).length t := by
    simp only [findBlocks, h]
  rw [e]; rfl

/-- text without any dash in front of `l` contributes no match and does not disturb the matches of `l` -/
theorem blocks_nodash_prefix (pre l : Str) (h : ∀ c ∈ pre, c ≠ '-') : blocks (pre ++ l) = blocks l := by
  induction pre with
  | nil => rfl
  | cons c p ih =>
    have hp : ∀ x ∈ p, x ≠ '-' := fun x hx => h x (by simp [hx])
    by_cases hsp : ∀ x ∈ (c :: p), isSpace x = true
    · -- only blanks in front: the match at this position is the match at `l`
      have hm := matchHere_skip_space (c :: p) l hsp
      cases hl : matchHere l with
      | some pr =>
        obtain ⟨cap, rest⟩ := pr
        rw [blocks_of_match _ cap rest (by rw [hm, hl]), blocks_of_match l cap rest hl]
      | none =>
        rw [List.cons_append, blocks_skip c (p ++ l) (by rw [← List.cons_append, hm, hl])]
        exact ih hp
    · -- some non-blank, non-dash character comes first
      have hnone : matchHere ((c :: p) ++ l) = none := by
        apply matchHere_nodash
        intro c0 r0 heq
        -- the first non-blank character lies in the prefix
        have : ∃ x ∈ (c :: p), isSpace x = false := by
          apply Classical.byContradiction
          intro hne
          apply hsp
          intro x hx
          cases hxs : isSpace x with
          | true => rfl
          | false => exact absurd ⟨x, hx, hxs⟩ hne
        obtain ⟨x, hx, hxs⟩ := this
        have hmem : c0 ∈ (c :: p) := by
          -- dropWhile over an append stops inside the first list when it holds a non-matching element
          have key : ∀ (a : Str), (∃ y ∈ a, isSpace y = false) → ∀ b c1 r1, (a ++ b).dropWhile isSpace = c1 :: r1 → c1 ∈ a := by
            intro a
            induction a with
            | nil => intro ⟨y, hy, _⟩; cases hy
            | cons a0 atl iha =>
              intro ⟨y, hy, hys⟩ b c1 r1 hd
              simp only [List.cons_append, List.dropWhile_cons] at hd
              split at hd
              · next ha0 =>
                simp only [List.mem_cons] at hy
                rcases hy with rfl | hy
                · rw [hys] at ha0; cases ha0
                · exact List.mem_cons_of_mem _ (iha ⟨y, hy, hys⟩ b c1 r1 hd)
              · injection hd with e _; subst e; simp
          exact key (c :: p) ⟨x, hx, hxs⟩ l c0 r0 heq
        exact h c0 hmem
      rw [List.cons_append, blocks_skip c (p ++ l) (by simpa using hnone)]
      exact ih hp
end Jwt.Creds

namespace Jwt.Creds
open Jwt
theorem isTok_not_goSpace (c : Char) (h : isTok c = true) : isGoSpace c = false := by
  unfold isTok at h
  simp only [Bool.or_eq_true, decide_eq_true_eq] at h
  unfold isGoSpace
  have key : ∀ n : Nat, (48 ≤ n ∧ n ≤ 57) ∨ (65 ≤ n ∧ n ≤ 90) ∨ (97 ≤ n ∧ n ≤ 122) ∨ n = 95 ∨ n = 45 ∨ n = 46 ∨ n = 61 →
      (n = 0x20 || (0x09 ≤ n && n ≤ 0x0d) || n = 0x85 || n = 0xa0 || n = 0x1680 ||
        (0x2000 ≤ n && n ≤ 0x200a) || n = 0x2028 || n = 0x2029 || n = 0x202f || n = 0x205f || n = 0x3000) = false := by
    intro n hn
    simp only [Bool.or_eq_false_iff, Bool.and_eq_false_iff, decide_eq_false_iff_not]
    omega
  apply key
  rcases h with (((h | h) | h) | h) | h
  · simp only [Char.isAlphanum, Char.isAlpha, Char.isUpper, Char.isLower, Char.isDigit, Bool.or_eq_true, Bool.and_eq_true,
      decide_eq_true_eq, UInt32.le_iff_toNat_le, ge_iff_le] at h
    have e : c.toNat = c.val.toNat := rfl
    simp only [seval] at h
    rw [e]; omega
  · subst h; decide
  · subst h; decide
  · subst h; decide
  · subst h; decide
end Jwt.Creds

namespace Jwt.Creds
open Jwt

/-- a decorated block (LF line ends) yields exactly the text between the dash lines, and the scan resumes after it -/
theorem matchHere_block (opn cls tok rest : Str)
    (ho : dashX opn = true) (hc : dashX cls = true)
    (hon : ∀ c ∈ opn, notNL c = true) (hcn : ∀ c ∈ cls, notNL c = true)
    (htok : ∀ c ∈ tok, isTok c = true) (hne : tok ≠ []) :
    matchHere (opn ++ '\n' :: (tok ++ '\n' :: (cls ++ '\n' :: rest))) = some (tok, rest) := by
  obtain ⟨o', ho'⟩ := dashX_head ho
  have hsp : (opn ++ '\n' :: (tok ++ '\n' :: (cls ++ '\n' :: rest))).dropWhile isSpace
      = opn ++ '\n' :: (tok ++ '\n' :: (cls ++ '\n' :: rest)) := by
    subst ho'; simp [List.dropWhile, isSpace]
  have htw : (tok ++ '\n' :: (cls ++ '\n' :: rest)).takeWhile isTok = tok := by
    rw [List.takeWhile_append_of_pos htok]; simp [List.takeWhile, isTok, Char.isAlphanum, Char.isAlpha, Char.isUpper, Char.isLower, Char.isDigit]
  have hdw : (tok ++ '\n' :: (cls ++ '\n' :: rest)).dropWhile isTok = '\n' :: (cls ++ '\n' :: rest) := by
    rw [List.dropWhile_append_of_pos htok]; simp [List.dropWhile, isTok, Char.isAlphanum, Char.isAlpha, Char.isUpper, Char.isLower, Char.isDigit]
  simp only [matchHere, hsp, splitNL_line opn _ hon]
  have hdl : dashLine opn = true := by simp [dashLine, ho]
  have hdc : dashLine cls = true := by simp [dashLine, hc]
  simp only [hdl, htw, hdw, hne, if_false, Bool.true_eq_false]
  simp [splitNL_line cls rest hcn, hdc]

/-- the same block with CRLF line ends -/
theorem matchHere_block_crlf (opn cls tok rest : Str)
    (ho : dashX opn = true) (hc : dashX cls = true)
    (hon : ∀ c ∈ opn, notNL c = true) (hcn : ∀ c ∈ cls, notNL c = true)
    (htok : ∀ c ∈ tok, isTok c = true) (hne : tok ≠ []) :
    matchHere (opn ++ '\r' :: '\n' :: (tok ++ '\r' :: '\n' :: (cls ++ '\r' :: '\n' :: rest))) = some (tok, rest) := by
  obtain ⟨o', ho'⟩ := dashX_head ho
  have hsp : (opn ++ '\r' :: '\n' :: (tok ++ '\r' :: '\n' :: (cls ++ '\r' :: '\n' :: rest))).dropWhile isSpace
      = opn ++ '\r' :: '\n' :: (tok ++ '\r' :: '\n' :: (cls ++ '\r' :: '\n' :: rest)) := by
    subst ho'; simp [List.dropWhile, isSpace]
  have htw : (tok ++ '\r' :: '\n' :: (cls ++ '\r' :: '\n' :: rest)).takeWhile isTok = tok := by
    rw [List.takeWhile_append_of_pos htok]; simp [List.takeWhile, isTok, Char.isAlphanum, Char.isAlpha, Char.isUpper, Char.isLower, Char.isDigit]
  have hdw : (tok ++ '\r' :: '\n' :: (cls ++ '\r' :: '\n' :: rest)).dropWhile isTok = '\r' :: '\n' :: (cls ++ '\r' :: '\n' :: rest) := by
    rw [List.dropWhile_append_of_pos htok]; simp [List.dropWhile, isTok, Char.isAlphanum, Char.isAlpha, Char.isUpper, Char.isLower, Char.isDigit]
  have hon' : ∀ c ∈ opn ++ ['\r'], notNL c = true := by
    intro c hc'; simp only [List.mem_append, List.mem_singleton] at hc'
    rcases hc' with h | rfl
    · exact hon c h
    · decide
  have hcn' : ∀ c ∈ cls ++ ['\r'], notNL c = true := by
    intro c hc'; simp only [List.mem_append, List.mem_singleton] at hc'
    rcases hc' with h | rfl
    · exact hcn c h
    · decide
  have e1 : opn ++ '\r' :: '\n' :: (tok ++ '\r' :: '\n' :: (cls ++ '\r' :: '\n' :: rest)) =
      (opn ++ ['\r']) ++ '\n' :: (tok ++ '\r' :: '\n' :: (cls ++ '\r' :: '\n' :: rest)) := by simp
  have e2 : cls ++ '\r' :: '\n' :: rest = (cls ++ ['\r']) ++ '\n' :: rest := by simp
  have hdl : dashLine (opn ++ ['\r']) = true := by simp [dashLine, ho]
  have hdc : dashLine (cls ++ ['\r']) = true := by simp [dashLine, hc]
  simp only [matchHere, hsp]
  rw [e1, splitNL_line (opn ++ ['\r']) _ hon']
  simp only [hdl, htw, hdw, hne, if_false, Bool.true_eq_false]
  rw [e2, splitNL_line (cls ++ ['\r']) rest hcn']
  simp [hdc]

theorem trimSpace_id (s : Str) (h : ∀ c ∈ s, isGoSpace c = false) : trimSpace s = s := by
  have hl : trimLeft s = s := by
    unfold trimLeft
    cases s with
    | nil => rfl
    | cons a t => simp [List.dropWhile_cons, h a (by simp)]
  have hr : trimRight s = s := by
    unfold trimRight
    have : s.reverse.dropWhile isGoSpace = s.reverse := by
      cases hs : s.reverse with
      | nil => rfl
      | cons a t =>
        have ha : a ∈ s := by
          have : a ∈ s.reverse := by rw [hs]; simp
          simpa using this
        simp [List.dropWhile_cons, h a ha]
    rw [this, List.reverse_reverse]
  unfold trimSpace
  rw [hl, hr]

end Jwt.Creds
