import JwtModel.Codec
/-! Integer literals: `strconv.Format` then `strconv.Parse` is the identity on in-range integers. -/
namespace Jwt.Codec

theorem digitChar_isDigit (d : Nat) (h : d < 10) : Json.isDigit (Char.ofNat (48 + d)) = true := by
  have : d = 0 ∨ d = 1 ∨ d = 2 ∨ d = 3 ∨ d = 4 ∨ d = 5 ∨ d = 6 ∨ d = 7 ∨ d = 8 ∨ d = 9 := by omega
  rcases this with h|h|h|h|h|h|h|h|h|h <;> subst h <;> decide

theorem digitChar_val (d : Nat) (h : d < 10) : (Char.ofNat (48 + d)).toNat - 48 = d := by
  have : d = 0 ∨ d = 1 ∨ d = 2 ∨ d = 3 ∨ d = 4 ∨ d = 5 ∨ d = 6 ∨ d = 7 ∨ d = 8 ∨ d = 9 := by omega
  rcases this with h|h|h|h|h|h|h|h|h|h <;> subst h <;> decide

theorem digitChar_ne_minus (d : Nat) (h : d < 10) : Char.ofNat (48 + d) ≠ '-' := by
  have : d = 0 ∨ d = 1 ∨ d = 2 ∨ d = 3 ∨ d = 4 ∨ d = 5 ∨ d = 6 ∨ d = 7 ∨ d = 8 ∨ d = 9 := by omega
  rcases this with h|h|h|h|h|h|h|h|h|h <;> subst h <;> decide

theorem digitsToNat_append (a : Str) (c : Char) : digitsToNat (a ++ [c]) = digitsToNat a * 10 + (c.toNat - 48) := by
  simp [digitsToNat, List.foldl_append]

theorem natToDigits_spec : ∀ (f n : Nat), n < f →
    digitsToNat (natToDigits f n) = n ∧ (natToDigits f n).all Json.isDigit = true ∧ natToDigits f n ≠ []
      ∧ (∀ r, natToDigits f n ≠ '-' :: r)
  | 0, n, h => by omega
  | f+1, n, h => by
    unfold natToDigits
    by_cases h10 : n < 10
    · simp only [h10, if_true]
      refine ⟨?_, ?_, by simp, ?_⟩
      · simp [digitsToNat, digitChar_val n h10]
      · simp [digitChar_isDigit n h10]
      · intro r e; simp at e; exact digitChar_ne_minus n h10 e.1
    · simp only [h10, if_false]
      have hlt : n / 10 < f := by omega
      obtain ⟨h1, h2, h3, h4⟩ := natToDigits_spec f (n / 10) hlt
      have hm : n % 10 < 10 := Nat.mod_lt _ (by decide)
      refine ⟨?_, ?_, by simp, ?_⟩
      · rw [digitsToNat_append, h1, digitChar_val _ hm]; omega
      · simp [List.all_append, h2, digitChar_isDigit _ hm]
      · intro r e
        cases hd : natToDigits f (n / 10) with
        | nil => exact h3 hd
        | cons c cs => rw [hd] at e; simp at e; exact h4 cs (by rw [hd, e.1])

theorem litToInt_intToLit (sg : Bool) (bits : Nat) (i : Int)
    (h : intMin sg bits ≤ i ∧ i ≤ intMax sg bits) : litToInt sg bits (intToLit i) = some i := by
  obtain ⟨h1, h2, h3, h4⟩ := natToDigits_spec (i.natAbs + 1) i.natAbs (by omega)
  unfold litToInt intToLit
  by_cases hn : i < 0
  · simp only [hn, if_true]
    have hs : sg = true := by
      cases sg with
      | true => rfl
      | false => simp [intMin] at h; omega
    subst hs
    simp only [h2, List.isEmpty_iff, h3, false_or, Bool.not_true, Bool.false_eq_true, if_false, and_false, h1]
    have : (-(i.natAbs : Int)) = i := by omega
    simp [this, h]
  · simp only [hn, if_false]
    cases hd : natToDigits (i.natAbs + 1) i.natAbs with
    | nil => exact absurd hd h3
    | cons c cs =>
      have hc : c ≠ '-' := fun e => h4 cs (by rw [hd, e])
      rw [hd] at h1 h2
      have hm : (match c :: cs with | '-' :: r => (true, r) | x => (false, c :: cs)) = (false, c :: cs) := by
        split
        · rename_i r heq; simp at heq; exact absurd heq.1 hc
        · rfl
      simp only [hm, h2, List.isEmpty_cons, Bool.false_eq_true, false_or, Bool.not_true, if_false, false_and, h1]
      have : ((i.natAbs : Nat) : Int) = i := by omega
      simp [this, h]

end Jwt.Codec
