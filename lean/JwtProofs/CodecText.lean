import JwtProofs.JsonText
import JwtProofs.CodecRT
/-!
# Text level of the codec: everything `marshal` emits is re-read by the parser (`WfJson`), hence
`decodeText (encodeText v) = overlay v`
-/
namespace Jwt.Codec
open Jwt Jwt.Codec Jwt.Json List

mutual
/-- every free-form value inside `v` is, once canonicalised, a tree the parser re-reads (true of anything that
came out of `Json.parse`) -/
def AnysWf : Val → Prop
  | .any j => WfJson (canonAny 200 j)
  | .ptr v => AnysWf v
  | .list vs => AnysWfList vs
  | .map kvs => AnysWfKVs kvs
  | .struct fs => AnysWfKVs fs
  | _ => True
def AnysWfList : List Val → Prop
  | [] => True
  | v :: vs => AnysWf v ∧ AnysWfList vs
def AnysWfKVs : List (Str × Val) → Prop
  | [] => True
  | (_, v) :: kvs => AnysWf v ∧ AnysWfKVs kvs
end

theorem anysWfKVs_mem : ∀ (kvs : List (Str × Val)) (e : Str × Val), AnysWfKVs kvs → e ∈ kvs → AnysWf e.2
  | [], _, _, h => by cases h
  | (k, v) :: kvs, e, hw, h => by
    simp only [AnysWfKVs] at hw
    simp only [mem_cons] at h
    rcases h with rfl | h
    · exact hw.1
    · exact anysWfKVs_mem kvs e hw.2 h

theorem anysWfKVs_of_forall : ∀ (kvs : List (Str × Val)), (∀ e ∈ kvs, AnysWf e.2) → AnysWfKVs kvs
  | [], _ => by simp [AnysWfKVs]
  | (k, v) :: kvs, h => by
    simp only [AnysWfKVs]
    exact ⟨h (k, v) (by simp), anysWfKVs_of_forall kvs (fun e he => h e (mem_cons_of_mem _ he))⟩

variable (env : CodecEnv)

/-- **Everything the encoder emits is re-readable text-wise.** -/
theorem marshal_wf : ∀ (f : Nat),
    (∀ t v j, marshal env f t v = .ok j → AnysWf v → WfJson j) ∧
    (∀ t vs js, marshalList env f t vs = .ok js → AnysWfList vs → WfList js) ∧
    (∀ t kvs m, marshalMap env f t kvs = .ok m → AnysWfKVs kvs → WfMembers m) ∧
    (∀ fs vals m, marshalFields env f fs vals = .ok m → AnysWfKVs vals → WfMembers m) ∧
    (∀ kvs js, marshalSigningKeys env f kvs = .ok js → AnysWfKVs kvs → WfList js) := by
  intro f
  induction f with
  | zero =>
    refine ⟨?_, ?_, ?_, ?_, ?_⟩
    · intro t v j h; simp [marshal] at h
    · intro t vs js h; simp [marshalList] at h
    · intro t kvs m h; simp [marshalMap] at h
    · intro fs vals m h; simp [marshalFields] at h
    · intro kvs js h; simp [marshalSigningKeys] at h
  | succ f ih =>
    obtain ⟨ih1, ih2, ih3, ih4, ih5⟩ := ih
    refine ⟨?_, ?_, ?_, ?_, ?_⟩
    · intro t v j h hw
      cases t with
      | bool => cases v <;> simp only [marshal] at h <;> try (cases h)
                simp [WfJson]
      | str => cases v <;> simp only [marshal] at h <;> try (cases h)
               simp [WfJson]
      | int sg bits =>
        cases v <;> simp only [marshal] at h <;> try (cases h)
        simp only [WfJson]; exact numOk_intToLit _
      | ptr t' =>
        cases v <;> simp only [marshal] at h <;> try (cases h)
        · simp [WfJson]
        · next v' => simp only [AnysWf] at hw; exact ih1 t' v' j h hw
      | slice t' =>
        cases v <;> simp only [marshal] at h <;> try (cases h)
        · simp [WfJson]
        · next vs =>
          cases hl : marshalList env f t' vs with
          | err => simp [hl, bind, Res.bind] at h
          | unsupported => simp [hl, bind, Res.bind] at h
          | ok js =>
            simp only [hl, bind, Res.bind, pure] at h
            injection h with h; subst h
            simp only [AnysWf] at hw
            simp only [WfJson]; exact ih2 t' vs js hl hw
      | map t' =>
        cases v <;> simp only [marshal] at h <;> try (cases h)
        · simp [WfJson]
        · next kvs =>
          cases hl : marshalMap env f t' (sortByKey kvs) with
          | err => simp [hl, bind, Res.bind] at h
          | unsupported => simp [hl, bind, Res.bind] at h
          | ok m =>
            simp only [hl, bind, Res.bind, pure] at h
            injection h with h; subst h
            simp only [AnysWf] at hw
            simp only [WfJson]
            apply ih3 t' (sortByKey kvs) m hl
            apply anysWfKVs_of_forall
            intro e he
            exact anysWfKVs_mem kvs e hw ((mergeSort_perm _ _).subset he)
      | struct fs =>
        cases v <;> simp only [marshal] at h <;> try (cases h)
        next vals =>
          cases hl : marshalFields env f fs vals with
          | err => simp [hl, bind, Res.bind] at h
          | unsupported => simp [hl, bind, Res.bind] at h
          | ok m =>
            simp only [hl, bind, Res.bind, pure] at h
            injection h with h; subst h
            simp only [AnysWf] at hw
            simp only [WfJson]; exact ih4 fs vals m hl hw
      | any =>
        cases v <;> simp only [marshal] at h <;> try (cases h)
        · simp [WfJson]
        · next j0 => simp only [AnysWf] at hw; exact hw
      | custom c =>
        cases c with
        | exportType =>
          cases v <;> simp only [marshal] at h <;> try (cases h)
          next i =>
            by_cases h1 : i = 1
            · subst h1; simp at h; subst h; simp [WfJson]
            · by_cases h2 : i = 2
              · subst h2; simp at h; subst h; simp [WfJson]
              · simp [h1, h2] at h
        | samplingRate =>
          cases v <;> simp only [marshal] at h <;> try (cases h)
          next i =>
            by_cases h0 : i = 0
            · subst h0; simp at h; subst h; simp [WfJson]
            · by_cases hr : 1 ≤ i ∧ i ≤ 100
              · simp [h0, hr] at h; subst h; simp only [WfJson]; exact numOk_intToLit _
              · simp [h0, hr] at h
        | scopeType =>
          cases v <;> simp only [marshal] at h <;> try (cases h)
          next i =>
            by_cases h1 : i = 1
            · subst h1; simp at h; subst h; simp [WfJson]
            · simp [h1] at h
        | cidrList =>
          cases v <;> simp only [marshal] at h <;> try (cases h)
          · simp [WfJson]
          · next vs =>
            cases hl : marshalList env f .str vs with
            | err => simp [hl, bind, Res.bind] at h
            | unsupported => simp [hl, bind, Res.bind] at h
            | ok js =>
              simp only [hl, bind, Res.bind, pure] at h
              injection h with h; subst h
              simp only [AnysWf] at hw
              simp only [WfJson]; exact ih2 .str vs js hl hw
        | signingKeys =>
          cases v <;> simp only [marshal] at h <;> try (cases h)
          · simp [WfJson]
          · next kvs =>
            by_cases he : kvs.isEmpty = true
            · simp only [he, if_true] at h; injection h with h; subst h; simp [WfJson]
            · simp only [he, Bool.false_eq_true, if_false] at h
              cases hl : marshalSigningKeys env f (sortByKey kvs) with
              | err => simp [hl, bind, Res.bind] at h
              | unsupported => simp [hl, bind, Res.bind] at h
              | ok js =>
                simp only [hl, bind, Res.bind, pure] at h
                injection h with h; subst h
                simp only [AnysWf] at hw
                simp only [WfJson]
                apply ih5 (sortByKey kvs) js hl
                apply anysWfKVs_of_forall
                intro e he'
                exact anysWfKVs_mem kvs e hw ((mergeSort_perm _ _).subset he')
    · intro t vs js h hw
      cases vs with
      | nil => simp only [marshalList] at h; injection h with h; subst h; simp [WfList]
      | cons v vs =>
        simp only [marshalList, bind, Res.bind] at h
        cases hj : marshal env f t v with
        | err => simp [hj] at h
        | unsupported => simp [hj] at h
        | ok j =>
          cases hr : marshalList env f t vs with
          | err => simp [hj, hr] at h
          | unsupported => simp [hj, hr] at h
          | ok js' =>
            simp only [hj, hr, pure] at h
            injection h with h; subst h
            simp only [AnysWfList] at hw
            simp only [WfList]
            exact ⟨ih1 t v j hj hw.1, ih2 t vs js' hr hw.2⟩
    · intro t kvs m h hw
      cases kvs with
      | nil => simp only [marshalMap] at h; injection h with h; subst h; simp [WfMembers]
      | cons e kvs =>
        obtain ⟨k, v⟩ := e
        simp only [marshalMap, bind, Res.bind] at h
        cases hj : marshal env f t v with
        | err => simp [hj] at h
        | unsupported => simp [hj] at h
        | ok j =>
          cases hr : marshalMap env f t kvs with
          | err => simp [hj, hr] at h
          | unsupported => simp [hj, hr] at h
          | ok m' =>
            simp only [hj, hr, pure] at h
            injection h with h; subst h
            simp only [AnysWfKVs] at hw
            simp only [WfMembers]
            exact ⟨ih1 t v j hj hw.1, ih3 t kvs m' hr hw.2⟩
    · intro fs vals m h hw
      cases fs with
      | nil => simp only [marshalFields] at h; injection h with h; subst h; simp [WfMembers]
      | cons x fs =>
        obtain ⟨k, om, t⟩ := x
        simp only [marshalFields] at h
        cases hv : getField vals k with
        | none => simp [hv] at h
        | some v =>
          simp only [hv] at h
          by_cases hom : (om && isEmptyValue v) = true
          · simp only [hom, if_true] at h; exact ih4 fs vals m h hw
          · have hom' : (om && isEmptyValue v) = false := by simpa using hom
            simp only [hom', Bool.false_eq_true, if_false, bind, Res.bind] at h
            cases hj : marshal env f t v with
            | err => simp [hj] at h
            | unsupported => simp [hj] at h
            | ok j =>
              cases hr : marshalFields env f fs vals with
              | err => simp [hj, hr] at h
              | unsupported => simp [hj, hr] at h
              | ok m' =>
                simp only [hj, hr, pure] at h
                injection h with h; subst h
                simp only [WfMembers]
                exact ⟨ih1 t v j hj (anysWfKVs_mem vals (k, v) hw (mem_of_getField vals k v hv)), ih4 fs vals m' hr hw⟩
    · intro kvs js h hw
      cases kvs with
      | nil => simp only [marshalSigningKeys] at h; injection h with h; subst h; simp [WfList]
      | cons e kvs =>
        obtain ⟨k, v⟩ := e
        simp only [AnysWfKVs] at hw
        cases v with
        | nil =>
          simp only [marshalSigningKeys, bind, Res.bind] at h
          cases hr : marshalSigningKeys env f kvs with
          | err => simp [hr] at h
          | unsupported => simp [hr] at h
          | ok js' =>
            simp only [hr, pure] at h
            injection h with h; subst h
            simp only [WfList, WfJson]
            exact ⟨trivial, ih5 kvs js' hr hw.2⟩
        | ptr s =>
          simp only [marshalSigningKeys, bind, Res.bind] at h
          cases hj : marshal env f env.userScope s with
          | err => simp [hj] at h
          | unsupported => simp [hj] at h
          | ok j =>
            cases hr : marshalSigningKeys env f kvs with
            | err => simp [hj, hr] at h
            | unsupported => simp [hj, hr] at h
            | ok js' =>
              simp only [hj, hr, pure] at h
              injection h with h; subst h
              simp only [WfList]
              have : AnysWf s := by have := hw.1; simpa [AnysWf] using this
              exact ⟨ih1 env.userScope s j hj this, ih5 kvs js' hr hw.2⟩
        | struct s =>
          simp only [marshalSigningKeys, bind, Res.bind] at h
          cases hj : marshal env f env.userScope (.struct s) with
          | err => simp [hj] at h
          | unsupported => simp [hj] at h
          | ok j =>
            cases hr : marshalSigningKeys env f kvs with
            | err => simp [hj, hr] at h
            | unsupported => simp [hj, hr] at h
            | ok js' =>
              simp only [hj, hr, pure] at h
              injection h with h; subst h
              simp only [WfList]
              exact ⟨ih1 env.userScope (.struct s) j hj hw.1, ih5 kvs js' hr hw.2⟩
        | _ => simp [marshalSigningKeys] at h

/-- **Text-level codec round trip.** -/
theorem decodeText_encodeText (sc : Nat) (henv : EnvOk env) (hsc : slack sc env.userScope ≤ sc)
    (t : Ty) (v base : Val) (text : Str)
    (hty : tyOk t = true) (hfuel : fuel + slack sc t ≤ decFuel) (hwt : WT env t v) (hany : AnysWf v)
    (hb : BaseOk t base) (he : encodeText env t v = .ok text) :
    decodeText env t base text = .ok (overlay env t base v) := by
  unfold encodeText at he
  cases hm : marshal env fuel t v with
  | err => simp [hm, bind, Res.bind] at he
  | unsupported => simp [hm, bind, Res.bind] at he
  | ok j =>
    simp only [hm, bind, Res.bind, pure] at he
    injection he with he; subst he
    have hwf := (marshal_wf env fuel).1 t v j hm hany
    unfold decodeText
    rw [parse_render j hwf]
    exact unmarshal_marshal env sc henv hsc fuel decFuel t v j base hm hty hwt hb hfuel

end Jwt.Codec
