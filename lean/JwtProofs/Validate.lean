import JwtModel.Validate
/-! Lemmas about issue lists: which parts of validation can raise time-check issues (only `ClaimsData.Validate`). -/
namespace Jwt

def timeCount (l : List Issue) : Nat := (l.filter (·.timeCheck)).length

@[simp] theorem timeCount_nil : timeCount [] = 0 := rfl
@[simp] theorem timeCount_append (a b : List Issue) : timeCount (a ++ b) = timeCount a + timeCount b := by
  simp [timeCount, List.filter_append]
@[simp] theorem timeCount_errI : timeCount errI = 0 := rfl
@[simp] theorem timeCount_warnI : timeCount warnI = 0 := rfl
@[simp] theorem timeCount_timeI : timeCount timeI = 1 := rfl
@[simp] theorem timeCount_errIf (b : Bool) : timeCount (errIf b) = 0 := by cases b <;> rfl
@[simp] theorem timeCount_ite (c : Prop) [Decidable c] (a b : List Issue) :
    timeCount (if c then a else b) = if c then timeCount a else timeCount b := by split <;> rfl
theorem timeCount_flatMap {α} (l : List α) (f : α → List Issue) (h : ∀ x, timeCount (f x) = 0) :
    timeCount (l.flatMap f) = 0 := by
  induction l with
  | nil => rfl
  | cons a l ih => simp [List.flatMap_cons, h a, ih]

/-- an issue list without blocking entries / without time-check entries -/
def NoTime (l : List Issue) : Prop := timeCount l = 0

@[simp] theorem tc_validateSubject (s : Str) : timeCount (validateSubject s) = 0 := by
  unfold validateSubject; split <;> simp

theorem tc_renamingLoop (n : Int) (toks : List Str) : timeCount (renamingLoop n toks).1 = 0 := by
  induction toks with
  | nil => rfl
  | cons t ts ih =>
    simp only [renamingLoop]
    split <;> (try split) <;> simp [ih]

@[simp] theorem tc_validateRenaming (s f : Str) : timeCount (validateRenaming s f) = 0 := by
  unfold validateRenaming
  have := tc_renamingLoop (countTokenWildcards f) (splitOn '.' s)
  simp [this]

@[simp] theorem tc_validateInfo (env : VEnv) (v : Val) : timeCount (validateInfo env v) = 0 := by
  unfold validateInfo; simp

@[simp] theorem tc_validateLatency (l : Val) : timeCount (validateLatency l) = 0 := by
  unfold validateLatency; simp

@[simp] theorem tc_validateTokenPos (s : Str) (p : Int) : timeCount (validateTokenPos s p) = 0 := by
  unfold validateTokenPos; split <;> (try split) <;> (try split) <;> simp

@[simp] theorem tc_validateExportLatency (b : Bool) (l : Val) : timeCount (validateExportLatency b l) = 0 := by
  unfold validateExportLatency; split <;> simp

@[simp] theorem tc_validateExportStream (b : Bool) (r : Str) (t : Bool) : timeCount (validateExportStream b r t) = 0 := by
  unfold validateExportStream; simp

@[simp] theorem tc_validateExport (env : VEnv) (ev : Val) : timeCount (validateExport env ev) = 0 := by
  unfold validateExport
  split <;> simp

@[simp] theorem tc_validateExports (env : VEnv) (v : Val) : timeCount (validateExports env v) = 0 := by
  unfold validateExports
  simp only [timeCount_append]
  rw [timeCount_flatMap, timeCount_flatMap, timeCount_flatMap]
  · intro _; rfl
  · intro _; rfl
  · intro ev; simp

@[simp] theorem tc_validateActivationBody (c : Val) : timeCount (validateActivationBody c) = 0 := by
  unfold validateActivationBody; simp

@[simp] theorem tc_validateImportToken (cr : Crypto) (a : Str) (i : Val) : timeCount (validateImportToken cr a i) = 0 := by
  unfold validateImportToken
  simp only
  split
  · rfl
  · split <;> simp

@[simp] theorem tc_validateImportLocal (l s t : Str) : timeCount (validateImportLocal l s t) = 0 := by
  unfold validateImportLocal; simp

@[simp] theorem tc_validateImport (cr : Crypto) (a : Str) (iv : Val) : timeCount (validateImport cr a iv) = 0 := by
  unfold validateImport
  split <;> simp

theorem tc_importsOverlap (seen : List Str) (l : List Val) : timeCount (importsOverlap seen l) = 0 := by
  induction l generalizing seen with
  | nil => rfl
  | cons iv rest ih =>
    simp only [importsOverlap]
    split
    · exact ih seen
    · split
      · simp only [timeCount_append, timeCount_errIf, ih]
        rw [timeCount_flatMap]
        intro _; simp
      · exact ih seen

@[simp] theorem tc_validateImports (cr : Crypto) (a : Str) (v : Val) : timeCount (validateImports cr a v) = 0 := by
  unfold validateImports
  simp only [timeCount_append, tc_importsOverlap]
  rw [timeCount_flatMap]
  intro _; simp

@[simp] theorem tc_validateOperatorLimits (v : Val) : timeCount (validateOperatorLimits v) = 0 := by
  unfold validateOperatorLimits; simp

@[simp] theorem tc_checkPermission (s : Str) (b : Bool) : timeCount (checkPermission s b) = 0 := by
  unfold checkPermission; split <;> simp

@[simp] theorem tc_validatePermissions (v : Val) : timeCount (validatePermissions v) = 0 := by
  unfold validatePermissions validatePermission
  simp only [timeCount_append]
  rw [timeCount_flatMap, timeCount_flatMap] <;> intro _ <;> simp

@[simp] theorem tc_validateMappings (v : Val) : timeCount (validateMappings v) = 0 := by
  unfold validateMappings
  rw [timeCount_flatMap]
  intro x
  simp only [timeCount_append, tc_validateSubject, timeCount_errIf]
  rw [timeCount_flatMap]
  intro _; simp

@[simp] theorem tc_validateExtAuth (v : Val) : timeCount (validateExtAuth v) = 0 := by
  unfold validateExtAuth
  simp only [timeCount_append, timeCount_errIf]
  rw [timeCount_flatMap, timeCount_flatMap]
  · intro _; simp
  · intro _; simp

@[simp] theorem tc_validateTrace (v : Val) : timeCount (validateTrace v) = 0 := by
  unfold validateTrace; split <;> simp

@[simp] theorem tc_validateSigningKey (k : Str) (v : Val) : timeCount (validateSigningKey k v) = 0 := by
  unfold validateSigningKey; split <;> simp

@[simp] theorem tc_validateSigningKeys (v : Val) : timeCount (validateSigningKeys v) = 0 := by
  unfold validateSigningKeys
  rw [timeCount_flatMap]
  intro x; simp

@[simp] theorem tc_wildcardExportIssues (l : List Val) : timeCount (wildcardExportIssues l) = 0 := by
  unfold wildcardExportIssues
  rw [timeCount_flatMap]
  intro x; split <;> simp

@[simp] theorem tc_validateAccountLimits (v : Val) : timeCount (validateAccountLimits v) = 0 := by
  unfold validateAccountLimits
  simp

@[simp] theorem tc_validateAccountBody (env : VEnv) (cr : Crypto) (c : Val) : timeCount (validateAccountBody env cr c) = 0 := by
  unfold validateAccountBody; simp

@[simp] theorem tc_validateTimeRange (env : VEnv) (v : Val) : timeCount (validateTimeRange env v) = 0 := by
  unfold validateTimeRange; simp

@[simp] theorem tc_validateUserLimits (env : VEnv) (v : Val) : timeCount (validateUserLimits env v) = 0 := by
  unfold validateUserLimits
  simp only [timeCount_append, timeCount_errIf]
  rw [timeCount_flatMap, timeCount_flatMap]
  · intro _; simp
  · intro _; simp

/-- `ClaimsData.Validate` raises exactly the two time checks the property names -/
theorem tc_validateClaimsData (now : Int) (c : Val) :
    timeCount (validateClaimsData now c) =
      (if 0 < (c.field "exp").asInt ∧ (c.field "exp").asInt < now then 1 else 0) +
      (if 0 < (c.field "nbf").asInt ∧ now < (c.field "nbf").asInt then 1 else 0) := by
  unfold validateClaimsData
  simp only [timeCount_append, timeCount_ite, timeCount_timeI, timeCount_nil, gt_iff_lt]

end Jwt

/-! ### which parts of validation raise blocking issues -/
namespace Jwt

/-- `IsBlocking(false)` -/
def blk (l : List Issue) : Bool := l.any (·.blocking)

theorem isBlocking_false_eq (l : List Issue) : isBlocking l false = blk l := by
  simp [isBlocking, blk]

@[simp] theorem blk_nil : blk [] = false := rfl
@[simp] theorem blk_append (a b : List Issue) : blk (a ++ b) = (blk a || blk b) := by simp [blk]
@[simp] theorem blk_errI : blk errI = true := rfl
@[simp] theorem blk_warnI : blk warnI = false := rfl
@[simp] theorem blk_timeI : blk timeI = false := rfl
@[simp] theorem blk_errIf (b : Bool) : blk (errIf b) = b := by cases b <;> rfl
@[simp] theorem blk_ite (c : Prop) [Decidable c] (a b : List Issue) :
    blk (if c then a else b) = if c then blk a else blk b := by split <;> rfl
@[simp] theorem blk_flatMap {α} (l : List α) (f : α → List Issue) :
    blk (l.flatMap f) = l.any (fun x => blk (f x)) := by
  induction l with
  | nil => rfl
  | cons a l ih => simp [List.flatMap_cons, ih]

@[simp] theorem blk_validateClaimsData (now : Int) (c : Val) : blk (validateClaimsData now c) = false := by
  unfold validateClaimsData; simp

end Jwt
