import JwtModel.Conc
/-! Commutation of independent steps; every interleaving of pairwise independent threads equals the sequential run. -/
namespace Jwt.Conc
variable {Loc Val : Type}

theorem indep_no_conflict (a b : Step Loc Val) (h : Indep a b) : ¬ Conflict a b := by
  rintro ⟨l, ⟨hw, hr⟩ | ⟨hw, hr⟩⟩
  · exact h.1 l hw hr
  · exact h.2 l hw hr

theorem indep_comm (a b : Step Loc Val) (h : Indep a b) (hp : Heap Loc Val) :
    a.f (b.f hp) = b.f (a.f hp) := by
  funext l
  by_cases ha : a.W l
  · have hb : ¬ b.W l := fun hb => h.1 l ha (Or.inr hb)
    rw [b.frame (a.f hp) l hb]
    apply a.dep (b.f hp) hp _ l ha
    intro l' hl'
    apply b.frame hp l'
    intro hbw
    exact h.2 l' hbw hl'
  · rw [a.frame (b.f hp) l ha]
    by_cases hb : b.W l
    · symm
      apply b.dep (a.f hp) hp _ l hb
      intro l' hl'
      apply a.frame hp l'
      intro haw
      exact h.1 l' haw hl'
    · rw [b.frame hp l hb, b.frame (a.f hp) l hb, a.frame hp l ha]

theorem exec_append (s t : List (Step Loc Val)) (h : Heap Loc Val) : exec (s ++ t) h = exec t (exec s h) := by
  simp [exec, List.foldl_append]

/-- a step independent of every step of `t` can be moved across `t` -/
theorem exec_comm_step (b : Step Loc Val) (t : List (Step Loc Val)) (hi : ∀ a ∈ t, Indep a b) (h : Heap Loc Val) :
    exec t (b.f h) = b.f (exec t h) := by
  induction t generalizing h with
  | nil => rfl
  | cons a t ih =>
    have hab : Indep a b := hi a (by simp)
    have : exec (a :: t) (b.f h) = exec t (a.f (b.f h)) := rfl
    rw [this, indep_comm a b hab h, ih (fun x hx => hi x (by simp [hx]))]
    rfl

/-- C17 core: if every step of thread 1 is independent of every step of thread 2, EVERY interleaving
    produces the heap of the sequential run (thread 1 then thread 2) -/
theorem interleave_seq_equiv (t1 t2 s : List (Step Loc Val)) (hil : Interleave t1 t2 s)
    (hind : ∀ a ∈ t1, ∀ b ∈ t2, Indep a b) (h : Heap Loc Val) :
    exec s h = exec (t1 ++ t2) h := by
  induction hil generalizing h with
  | nil => rfl
  | @left a t1 t2 s _ ih =>
    have := ih (fun x hx y hy => hind x (by simp [hx]) y hy) (a.f h)
    exact this
  | @right b t1 t2 s _ ih =>
    have h1 := ih (fun x hx y hy => hind x hx y (by simp [hy])) (b.f h)
    have : exec (b :: s) h = exec s (b.f h) := rfl
    rw [this, h1, exec_append, exec_append]
    rw [exec_comm_step b t1 (fun a ha => hind a ha b (by simp)) h]
    rfl

/-- and no interleaving contains a race -/
theorem interleave_no_race (t1 t2 : List (Step Loc Val)) (hind : ∀ a ∈ t1, ∀ b ∈ t2, Indep a b) :
    ∀ a ∈ t1, ∀ b ∈ t2, ¬ Conflict a b :=
  fun a ha b hb => indep_no_conflict a b (hind a ha b hb)


theorem indep_symm (a b : Step Loc Val) (h : Indep a b) : Indep b a := ⟨h.2, h.1⟩

theorem exec_nil_threads (ths : List (List (Step Loc Val))) (h : ∀ t ∈ ths, t = []) : ths.flatten = [] := by
  induction ths with
  | nil => rfl
  | cons t ts ih =>
    have := h t (by simp)
    subst this
    simpa using ih (fun u hu => h u (by simp [hu]))

/-- any number of threads: every interleaving of pairwise independent threads ends in the heap of running the
threads one after the other -/
theorem interleaveN_seq_equiv (ths : List (List (Step Loc Val))) (s : List (Step Loc Val)) (hil : InterleaveN ths s)
    (hind : PairwiseIndep ths) (h : Heap Loc Val) : exec s h = exec ths.flatten h := by
  induction hil generalizing h with
  | @done ths hn => rw [exec_nil_threads ths hn]
  | @pick pre post t b s _ ih =>
    have hsub : PairwiseIndep (pre ++ t :: post) := by
      unfold PairwiseIndep at hind ⊢
      rw [List.pairwise_append] at hind ⊢
      obtain ⟨h1, h2, h3⟩ := hind
      rw [List.pairwise_cons] at h2 ⊢
      refine ⟨h1, ⟨fun u hu a ha c hc => h2.1 u hu a (by simp [ha]) c hc, h2.2⟩, ?_⟩
      intro x hx y hy
      simp only [List.mem_cons] at hy
      rcases hy with rfl | hy
      · intro a ha c hc; exact h3 x hx (b :: y) (by simp) a ha c (by simp [hc])
      · exact h3 x hx y (by simp [hy])
    have hb : ∀ a ∈ pre.flatten, Indep a b := by
      intro a ha
      simp only [List.mem_flatten] at ha
      obtain ⟨u, hu, hau⟩ := ha
      unfold PairwiseIndep at hind
      rw [List.pairwise_append] at hind
      exact hind.2.2 u hu (b :: t) (by simp) a hau b (by simp)
    have e : exec (b :: s) h = exec s (b.f h) := rfl
    rw [e, ih hsub (b.f h)]
    simp only [List.flatten_append, List.flatten_cons, exec_append]
    rw [exec_comm_step b pre.flatten hb h]
    rfl

/-- and no step of one thread races with a step of another -/
theorem interleaveN_no_race (ths : List (List (Step Loc Val))) (hind : PairwiseIndep ths) :
    ths.Pairwise (fun t u => ∀ a ∈ t, ∀ b ∈ u, ¬ Conflict a b) := by
  unfold PairwiseIndep at hind
  exact hind.imp (fun h a ha b hb => indep_no_conflict a b (h a ha b hb))

end Jwt.Conc
