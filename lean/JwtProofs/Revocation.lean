import JwtModel.Revocation
/-! C09 lemmas: the association-list model refines the abstract map `α → Option Int` (ported spike). -/
namespace Jwt.Rev
variable {α : Type} [DecidableEq α]

-- ---------- abstract spec: a partial function ----------
def Spec (α : Type) := α → Option Int
def abs (m : M α) : Spec α := fun k => lookup k m
def sRevoke (f : Spec α) (k : α) (t : Int) : Spec α := fun x =>
  if x = k then (match f k with | some ts => if ts > t then some ts else some t | none => some t) else f x
def sClear (f : Spec α) (k : α) : Spec α := fun x => if x = k then none else f x
def sCompact (all : α) (f : Spec α) : Spec α := fun x =>
  match f all, f x with
  | some ats, some v => if x ≠ all ∧ ats ≥ v then none else some v
  | _, o => o

theorem lookup_erase (k x : α) (m : M α) : lookup x (erase k m) = if x = k then none else lookup x m := by
  induction m with
  | nil => simp [erase, lookup]
  | cons p r ih =>
    obtain ⟨k', v⟩ := p
    by_cases h : k' = k
    · subst h
      have : erase k' ((k', v) :: r) = erase k' r := by simp [erase]
      rw [this, ih]
      by_cases hx : x = k'
      · simp [hx]
      · have : ¬ k' = x := fun e => hx e.symm
        simp [hx, lookup, this]
    · have : erase k ((k', v) :: r) = (k', v) :: erase k r := by simp [erase, h]
      rw [this]
      simp only [lookup]
      by_cases hx : k' = x
      · subst hx; simp [h]
      · simp [hx, ih]

theorem abs_revoke (m : M α) (k : α) (t : Int) : abs (revoke m k t) = sRevoke (abs m) k t := by
  funext x
  simp only [abs, revoke, sRevoke]
  cases h : lookup k m with
  | none =>
    by_cases hx : x = k
    · subst hx; simp [lookup]
    · have : ¬ k = x := fun e => hx e.symm
      simp [lookup, this, lookup_erase, hx]
  | some ts =>
    by_cases hgt : ts > t
    · simp only [hgt, if_true]
      by_cases hx : x = k
      · subst hx; simp [h]
      · simp [hx]
    · simp only [hgt, if_false]
      by_cases hx : x = k
      · subst hx; simp [lookup]
      · have : ¬ k = x := fun e => hx e.symm
        simp [lookup, this, lookup_erase, hx]

theorem abs_clear (m : M α) (k : α) : abs (clear m k) = sClear (abs m) k := by
  funext x; simp [abs, clear, sClear, lookup_erase]

/-- revoking never lowers a stored time -/
theorem revoke_monotone (f : Spec α) (k : α) (t ts : Int) (h : f k = some ts) :
    ∃ ts', sRevoke f k t k = some ts' ∧ ts ≤ ts' ∧ t ≤ ts' := by
  simp only [sRevoke, if_true, h]
  by_cases hgt : ts > t
  · exact ⟨ts, by simp [hgt], Int.le_refl _, Int.le_of_lt hgt⟩
  · exact ⟨t, by simp [hgt], Int.not_lt.mp hgt, Int.le_refl _⟩

/-- lookups in a value-filtered list, given distinct keys -/
theorem lookup_filter (q : α × Int → Bool) (x : α) :
    ∀ (m : M α), (keys m).Nodup →
      lookup x (m.filter q) = (match lookup x m with | some v => if q (x, v) then some v else none | none => none) := by
  intro m
  induction m with
  | nil => intro _; simp [lookup]
  | cons p r ih =>
    obtain ⟨k', v⟩ := p
    intro hnd
    simp only [keys, List.map_cons, List.nodup_cons] at hnd
    have ihr := ih hnd.2
    by_cases hx : k' = x
    · subst hx
      have hnone : lookup k' r = none := by
        clear ihr ih
        induction r with
        | nil => rfl
        | cons p2 r2 ih2 =>
          obtain ⟨k2, v2⟩ := p2
          simp only [List.map_cons, List.mem_cons, not_or] at hnd
          have hne : ¬ k2 = k' := fun e => hnd.1.1 e.symm
          simp only [lookup, hne, if_false]
          apply ih2
          refine ⟨hnd.1.2, ?_⟩
          have := hnd.2
          simp only [List.map_cons, List.nodup_cons] at this
          exact this.2
      by_cases hq : q (k', v) = true
      · simp [List.filter, hq, lookup]
      · have hq' : q (k', v) = false := by simpa using hq
        simp only [List.filter, hq', lookup, if_true]
        rw [ihr, hnone]; simp
    · by_cases hq : q (k', v) = true
      · simp [List.filter, hq, lookup, hx, ihr]
      · have hq' : q (k', v) = false := by simpa using hq
        simp [List.filter, hq', lookup, hx, ihr]

theorem abs_compact (all : α) (m : M α) (hnd : (keys m).Nodup) :
    abs (compact all m).1 = sCompact all (abs m) := by
  funext x
  simp only [abs, compact, sCompact]
  cases ha : lookup all m with
  | none => simp
  | some ats =>
    simp only []
    rw [lookup_filter _ x m hnd]
    cases hx : lookup x m with
    | none => simp
    | some v =>
      by_cases hxa : x = all
      · simp [hxa]
      · by_cases hge : ats ≥ v
        · simp [hxa, hge]
        · simp [hxa, hge]

/-- compaction changes no answer -/
theorem compact_preserves_answers (all : α) (m : M α) (hnd : (keys m).Nodup) (k : α) (t : Int) :
    isRevoked all (compact all m).1 k t = isRevoked all m k t := by
  have h := abs_compact all m hnd
  have hk := congrFun h k
  have ha := congrFun h all
  simp only [abs] at hk ha
  simp only [isRevoked, hk, ha, sCompact, abs]
  cases hall : lookup all m with
  | none => simp
  | some ats =>
    cases hkv : lookup k m with
    | none => simp [geOpt]
    | some v =>
      by_cases hka : k = all
      · subst hka
        rw [hall] at hkv; cases hkv
        simp [geOpt]
      · by_cases hge : ats ≥ v
        · have hge' : v ≤ ats := hge
          by_cases h1 : ats ≥ t
          · have h1' : t ≤ ats := h1
            simp [geOpt, hka, hge', h1']
          · have h1' : ¬ t ≤ ats := h1
            have : ¬ t ≤ v := fun h2 => h1 (Int.le_trans h2 hge)
            simp [geOpt, hka, hge', h1', this]
        · have hge' : ¬ v ≤ ats := hge
          simp [geOpt, hka, hge']

/-- compaction removes precisely the covered entries and returns them -/
theorem compact_exact (all : α) (m : M α) (ats : Int) (h : lookup all m = some ats) (p : α × Int) :
    (p ∈ (compact all m).2 ↔ p ∈ m ∧ p.1 ≠ all ∧ ats ≥ p.2) ∧
    (p ∈ (compact all m).1 ↔ p ∈ m ∧ ¬ (p.1 ≠ all ∧ ats ≥ p.2)) := by
  simp only [compact, h, List.mem_filter, decide_eq_true_eq, Bool.decide_and, Bool.and_eq_true, Bool.or_eq_true, Bool.decide_or]
  constructor
  · simp
  · constructor
    · rintro ⟨hm, h1 | h1⟩
      · exact ⟨hm, fun hc => hc.1 h1⟩
      · exact ⟨hm, fun hc => by simp at h1; exact absurd hc.2 (Int.not_le.mpr h1)⟩
    · rintro ⟨hm, hn⟩
      refine ⟨hm, ?_⟩
      by_cases hp : p.1 = all
      · left; exact hp
      · right; simp
        exact Int.not_le.mp (fun hge => hn ⟨hp, hge⟩)

theorem compact_no_wildcard (all : α) (m : M α) (h : lookup all m = none) : compact all m = (m, []) := by
  simp [compact, h]

-- ---------- every history ----------

def sStep (all : α) (f : Spec α) : Op α → Spec α
  | .revokeAt k t => sRevoke f k t
  | .clear k => sClear f k
  | .compact => sCompact all f

theorem keys_filter_nodup (q : α × Int → Bool) (m : M α) (h : (keys m).Nodup) : (keys (m.filter q)).Nodup := by
  unfold keys at *
  exact List.Nodup.sublist (List.Sublist.map _ List.filter_sublist) h

theorem not_mem_keys_erase (k : α) (m : M α) : k ∉ keys (erase k m) := by
  simp [keys, erase, List.mem_map, List.mem_filter]

theorem step_nodup (all : α) (m : M α) (h : (keys m).Nodup) (op : Op α) : (keys (step all m op)).Nodup := by
  cases op with
  | revokeAt k t =>
    have hins : (keys ((k, t) :: erase k m)).Nodup := by
      simp only [keys, List.map_cons, List.nodup_cons]
      exact ⟨not_mem_keys_erase k m, keys_filter_nodup _ m h⟩
    simp only [step, revoke]
    cases lookup k m with
    | none => exact hins
    | some ts => by_cases hg : ts > t <;> simp [hg, h, hins]
  | clear k => exact keys_filter_nodup _ m h
  | compact =>
    simp only [step, compact]
    cases lookup all m with
    | none => exact h
    | some ats => exact keys_filter_nodup _ m h

/-- C09 refinement: after ANY history the concrete list represents the abstract map -/
theorem refines (all : α) (ops : List (Op α)) :
    ∀ (m : M α), (keys m).Nodup →
      abs (ops.foldl (step all) m) = ops.foldl (sStep all) (abs m) ∧ (keys (ops.foldl (step all) m)).Nodup := by
  induction ops with
  | nil => intro m h; exact ⟨rfl, h⟩
  | cons op ops ih =>
    intro m h
    have hn := step_nodup all m h op
    have hs : abs (step all m op) = sStep all (abs m) op := by
      cases op with
      | revokeAt k t => exact abs_revoke m k t
      | clear k => exact abs_clear m k
      | compact => exact abs_compact all m h
    simp only [List.foldl_cons]
    rw [← hs]
    exact ih _ hn


end Jwt.Rev
