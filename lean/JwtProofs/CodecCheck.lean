import JwtModel.Overlay
/-!
# Executable checkers for the hypotheses of the round-trip theorems (`Full`, `WT`, `Covers`, `VEq`)

Each returns `true` only if the proposition holds (soundness theorems below); they exist so that the
non-vacuity examples — concrete claims values meeting every hypothesis — are decided by evaluation.
-/
namespace Jwt.Codec
open Jwt Jwt.Codec List

def isNullJ : Json → Bool | .null => true | _ => false
def anyOkB (j : Json) : Bool := !isNullJ j && anySupported (jsonSize 200 (canonAny 200 j) + 2) (canonAny 200 j)

theorem anyOkB_sound (j : Json) (h : anyOkB j = true) : anyOk j := by
  simp only [anyOkB, Bool.and_eq_true, Bool.not_eq_true'] at h
  refine ⟨?_, h.2⟩
  intro e; subst e; simp [isNullJ] at h

/-! ### VEq -/
mutual
def veqB : Val → Val → Bool
  | .bool a, .bool b => a == b
  | .str a, .str b => a == b
  | .int a, .int b => a == b
  | .nil, .nil => true
  | .map [], .nil => true
  | .ptr r', .ptr v => veqB r' v
  | .nil, .list [] => true
  | .list rs, .list vs => veqListB rs vs
  | .nil, .map [] => true
  | .map rs, .map kvs => (kvs.isEmpty && rs.isEmpty) ||
      (decide (rs.map (·.1) = (sortByKey kvs).map (·.1)) && veqKVsB rs kvs)
  | .struct rs, .struct vals => decide (rs.map (·.1) = vals.map (·.1)) && veqKVsB rs vals
  | _, _ => false
def veqListB : List Val → List Val → Bool
  | [], [] => true
  | r :: rs, v :: vs => veqB r v && veqListB rs vs
  | _, _ => false
def veqKVsB : List (Str × Val) → List (Str × Val) → Bool
  | _, [] => true
  | rs, (k, v) :: kvs =>
    (match lookupV k rs with
     | some r => veqB r v
     | none => false) && veqKVsB rs kvs
end

mutual
theorem veqB_sound : ∀ (r v : Val), veqB r v = true → VEq r v
  | r, .bool b, h => by cases r <;> simp [veqB] at h; subst h; simp [VEq]
  | r, .str s, h => by cases r <;> simp [veqB] at h; subst h; simp [VEq]
  | r, .int i, h => by cases r <;> simp [veqB] at h; subst h; simp [VEq]
  | r, .any _, h => by cases r <;> simp [veqB] at h
  | r, .nil, h => by
    cases r with
    | nil => simp [VEq]
    | map m => cases m <;> simp [veqB] at h; simp [VEq]
    | _ => simp [veqB] at h
  | r, .ptr v, h => by
    cases r with
    | ptr r' => simp only [veqB] at h; simp only [VEq]; exact ⟨r', rfl, veqB_sound r' v h⟩
    | _ => simp [veqB] at h
  | r, .list vs, h => by
    cases r with
    | nil => cases vs <;> simp [veqB] at h; simp [VEq]
    | list rs => simp only [veqB] at h; simp only [VEq]; exact Or.inr ⟨rs, rfl, veqListB_sound rs vs h⟩
    | _ => simp [veqB] at h
  | r, .map kvs, h => by
    cases r with
    | nil => cases kvs <;> simp [veqB] at h; simp [VEq]
    | map rs =>
      simp only [veqB, Bool.or_eq_true, Bool.and_eq_true, decide_eq_true_eq] at h
      simp only [VEq]
      rcases h with ⟨h1, h2⟩ | ⟨h1, h2⟩
      · left
        have e1 : kvs = [] := by simpa using h1
        have e2 : rs = [] := by simpa using h2
        exact ⟨e1, Or.inr (by rw [e2])⟩
      · exact Or.inr ⟨rs, rfl, h1, veqKVsB_sound rs kvs h2⟩
    | _ => simp [veqB] at h
  | r, .struct vals, h => by
    cases r with
    | struct rs =>
      simp only [veqB, Bool.and_eq_true, decide_eq_true_eq] at h
      simp only [VEq]
      exact ⟨rs, rfl, h.1, veqKVsB_sound rs vals h.2⟩
    | _ => simp [veqB] at h
termination_by structural _ v => v
theorem veqListB_sound : ∀ (rs vs : List Val), veqListB rs vs = true → VEqList rs vs
  | rs, [], h => by cases rs <;> simp [veqListB] at h; simp [VEqList]
  | rs, v :: vs, h => by
    cases rs with
    | nil => simp [veqListB] at h
    | cons r rs =>
      simp only [veqListB, Bool.and_eq_true] at h
      simp only [VEqList]
      exact ⟨r, rs, rfl, veqB_sound r v h.1, veqListB_sound rs vs h.2⟩
termination_by structural _ vs => vs
theorem veqKVsB_sound : ∀ (rs kvs : List (Str × Val)), veqKVsB rs kvs = true → VEqKVs rs kvs
  | _, [], _ => by simp [VEqKVs]
  | rs, (k, v) :: kvs, h => by
    simp only [veqKVsB, Bool.and_eq_true] at h
    simp only [VEqKVs]
    refine ⟨?_, veqKVsB_sound rs kvs h.2⟩
    cases hl : lookupV k rs with
    | none => have := h.1; rw [hl] at this; cases this
    | some r => have := h.1; rw [hl] at this; exact ⟨r, rfl, veqB_sound r v this⟩
termination_by structural _ kvs => kvs
end

variable (env : CodecEnv)

/-! ### Full -/
mutual
def fullB : Ty → Val → Bool
  | .bool, .bool _ => true
  | .str, .str _ => true
  | .int _ _, .int _ => true
  | .ptr _, .nil => true
  | .ptr t, .ptr v => fullB t v
  | .slice _, .nil => true
  | .slice t, .list vs => fullListB t vs
  | .map _, .nil => true
  | .map t, .map kvs => fullKVsB t kvs
  | .struct fs, .struct vals => decide (vals.map (·.1) = fs.map (·.1)) && fullValsB fs vals
  | .any, .nil => true
  | .any, .any _ => true
  | .custom .exportType, .int _ => true
  | .custom .samplingRate, .int _ => true
  | .custom .scopeType, .int _ => true
  | .custom .cidrList, .nil => true
  | .custom .cidrList, .list vs => fullListB .str vs
  | .custom .signingKeys, .nil => true
  | .custom .signingKeys, .map kvs => fullKeysB kvs
  | _, _ => false
def fullListB : Ty → List Val → Bool
  | _, [] => true
  | t, v :: vs => fullB t v && fullListB t vs
def fullKVsB : Ty → List (Str × Val) → Bool
  | _, [] => true
  | t, (_, v) :: kvs => fullB t v && fullKVsB t kvs
def fullValsB : List (Str × Bool × Ty) → List (Str × Val) → Bool
  | _, [] => true
  | fs, (k, v) :: vals =>
    (match fieldType fs k with
     | some (_, t) => fullB t v
     | none => false) && fullValsB fs vals
def fullKeysB : List (Str × Val) → Bool
  | [] => true
  | (_, .nil) :: kvs => fullKeysB kvs
  | (_, .ptr s) :: kvs => fullB env.userScope s && fullKeysB kvs
  | _ :: _ => false
end

mutual
theorem fullB_sound : ∀ (t : Ty) (v : Val), fullB env t v = true → Full env t v
  | t, .bool _, h => by
    cases t with
    | custom c => cases c <;> simp [fullB] at h
    | _ => simp [fullB] at h <;> simp [Full]
  | t, .str _, h => by
    cases t with
    | custom c => cases c <;> simp [fullB] at h
    | _ => simp [fullB] at h <;> simp [Full]
  | t, .int _, h => by
    cases t with
    | custom c => cases c <;> simp [fullB] at h <;> simp [Full]
    | _ => simp [fullB] at h <;> simp [Full]
  | t, .any _, h => by
    cases t with
    | custom c => cases c <;> simp [fullB] at h
    | _ => simp [fullB] at h <;> simp [Full]
  | t, .nil, h => by
    cases t with
    | custom c => cases c <;> simp [fullB] at h <;> simp [Full]
    | _ => simp [fullB] at h <;> simp [Full]
  | t, .ptr v, h => by
    cases t with
    | ptr t' => simp only [fullB] at h; simp only [Full]; exact fullB_sound t' v h
    | custom c => cases c <;> simp [fullB] at h
    | _ => simp [fullB] at h
  | t, .list vs, h => by
    cases t with
    | slice t' => simp only [fullB] at h; simp only [Full]; exact fullListB_sound t' vs h
    | custom c =>
      cases c <;> simp only [fullB] at h <;> try (cases h)
      simp only [Full]; exact fullListB_sound .str vs h
    | _ => simp [fullB] at h
  | t, .map kvs, h => by
    cases t with
    | map t' => simp only [fullB] at h; simp only [Full]; exact fullKVsB_sound t' kvs h
    | custom c =>
      cases c <;> simp only [fullB] at h <;> try (cases h)
      simp only [Full]; exact fullKeysB_sound kvs h
    | _ => simp [fullB] at h
  | t, .struct vals, h => by
    cases t with
    | struct fs =>
      simp only [fullB, Bool.and_eq_true, decide_eq_true_eq] at h
      simp only [Full]
      exact ⟨h.1, fullValsB_sound fs vals h.2⟩
    | custom c => cases c <;> simp [fullB] at h
    | _ => simp [fullB] at h
termination_by structural _ v => v
theorem fullListB_sound : ∀ (t : Ty) (vs : List Val), fullListB env t vs = true → FullList env t vs
  | _, [], _ => by simp [FullList]
  | t, v :: vs, h => by
    simp only [fullListB, Bool.and_eq_true] at h
    simp only [FullList]
    exact ⟨fullB_sound t v h.1, fullListB_sound t vs h.2⟩
termination_by structural _ vs => vs
theorem fullKVsB_sound : ∀ (t : Ty) (kvs : List (Str × Val)), fullKVsB env t kvs = true → FullKVs env t kvs
  | _, [], _ => by simp [FullKVs]
  | t, (k, v) :: kvs, h => by
    simp only [fullKVsB, Bool.and_eq_true] at h
    simp only [FullKVs]
    exact ⟨fullB_sound t v h.1, fullKVsB_sound t kvs h.2⟩
termination_by structural _ kvs => kvs
theorem fullValsB_sound : ∀ (fs : List (Str × Bool × Ty)) (vals : List (Str × Val)), fullValsB env fs vals = true → FullVals env fs vals
  | _, [], _ => by simp [FullVals]
  | fs, (k, v) :: vals, h => by
    simp only [fullValsB, Bool.and_eq_true] at h
    simp only [FullVals]
    refine ⟨?_, fullValsB_sound fs vals h.2⟩
    cases hft : fieldType fs k with
    | none => have := h.1; rw [hft] at this; cases this
    | some ot => have := h.1; rw [hft] at this; exact fullB_sound ot.2 v this
termination_by structural _ vals => vals
theorem fullKeysB_sound : ∀ (kvs : List (Str × Val)), fullKeysB env kvs = true → FullKeys env kvs
  | [], _ => by simp [FullKeys]
  | (k, .nil) :: kvs, h => by simp only [fullKeysB] at h; simp only [FullKeys]; exact fullKeysB_sound kvs h
  | (k, .ptr s) :: kvs, h => by
    simp only [fullKeysB, Bool.and_eq_true] at h
    simp only [FullKeys]
    exact ⟨fullB_sound env.userScope s h.1, fullKeysB_sound kvs h.2⟩
  | (k, .bool _) :: kvs, h => by simp [fullKeysB] at h
  | (k, .str _) :: kvs, h => by simp [fullKeysB] at h
  | (k, .int _) :: kvs, h => by simp [fullKeysB] at h
  | (k, .list _) :: kvs, h => by simp [fullKeysB] at h
  | (k, .map _) :: kvs, h => by simp [fullKeysB] at h
  | (k, .struct _) :: kvs, h => by simp [fullKeysB] at h
  | (k, .any _) :: kvs, h => by simp [fullKeysB] at h
termination_by structural kvs => kvs
end

/-! ### WT -/
def isInt1 : Option Val → Bool
  | some (.int i) => i == 1
  | _ => false
def isStrK (k : Str) : Option Val → Bool
  | some (.str s) => s == k
  | _ => false
theorem isInt1_sound (o : Option Val) (h : isInt1 o = true) : o = some (.int 1) := by
  cases o with
  | none => simp [isInt1] at h
  | some v => cases v <;> simp [isInt1] at h; subst h; rfl
theorem isStrK_sound (k : Str) (o : Option Val) (h : isStrK k o = true) : o = some (.str k) := by
  cases o with
  | none => simp [isStrK] at h
  | some v => cases v <;> simp [isStrK] at h; subst h; rfl

mutual
def wtB : Ty → Val → Bool
  | .int sg bits, .int i => decide (intMin sg bits ≤ i) && decide (i ≤ intMax sg bits)
  | .ptr t, .ptr v => wtB t v
  | .slice t, .list vs => wtListB t vs
  | .map t, .map kvs => decide ((kvs.map (·.1)).Nodup) && wtKVsB t kvs
  | .struct fs, .struct vals => decide ((vals.map (·.1)).Nodup) && wtValsB fs vals
  | .any, .any j => anyOkB j
  | .custom .signingKeys, .map kvs => decide ((kvs.map (·.1)).Nodup) && wtKeysB kvs
  | _, _ => true
def wtListB : Ty → List Val → Bool
  | _, [] => true
  | t, v :: vs => wtB t v && wtListB t vs
def wtKVsB : Ty → List (Str × Val) → Bool
  | _, [] => true
  | t, (_, v) :: kvs => wtB t v && wtKVsB t kvs
def wtValsB : List (Str × Bool × Ty) → List (Str × Val) → Bool
  | _, [] => true
  | fs, (k, v) :: vals =>
    (match fieldType fs k with
     | some (_, t) => wtB t v
     | none => true) && wtValsB fs vals
def wtKeysB : List (Str × Val) → Bool
  | [] => true
  | (_, .nil) :: kvs => wtKeysB kvs
  | (k, .ptr (.struct sfs)) :: kvs =>
    isInt1 (getField sfs "kind".toList) && isStrK k (getField sfs "key".toList) &&
      wtB env.userScope (.struct sfs) && wtKeysB kvs
  | _ :: _ => false
end

mutual
theorem wtB_sound : ∀ (t : Ty) (v : Val), wtB env t v = true → WT env t v
  | t, .bool _, _ => by cases t <;> simp [WT]
  | t, .str _, _ => by cases t <;> simp [WT]
  | t, .nil, _ => by cases t <;> simp [WT]
  | t, .int i, h => by
    cases t with
    | int sg bits => simpa [wtB, WT] using h
    | _ => simp [WT]
  | t, .any j, h => by
    cases t with
    | any => simp only [wtB] at h; simp only [WT]; exact anyOkB_sound j h
    | _ => simp [WT]
  | t, .ptr v, h => by
    cases t with
    | ptr t' => simp only [wtB] at h; simp only [WT]; exact wtB_sound t' v h
    | _ => simp [WT]
  | t, .list vs, h => by
    cases t with
    | slice t' => simp only [wtB] at h; simp only [WT]; exact wtListB_sound t' vs h
    | _ => simp [WT]
  | t, .map kvs, h => by
    cases t with
    | map t' =>
      simp only [wtB, Bool.and_eq_true, decide_eq_true_eq] at h
      simp only [WT]; exact ⟨h.1, wtKVsB_sound t' kvs h.2⟩
    | custom c =>
      cases c <;> try (simp [WT])
      simp only [wtB, Bool.and_eq_true, decide_eq_true_eq] at h
      exact ⟨h.1, wtKeysB_sound kvs h.2⟩
    | _ => simp [WT]
  | t, .struct vals, h => by
    cases t with
    | struct fs =>
      simp only [wtB, Bool.and_eq_true, decide_eq_true_eq] at h
      simp only [WT]; exact ⟨h.1, wtValsB_sound fs vals h.2⟩
    | _ => simp [WT]
termination_by structural _ v => v
theorem wtListB_sound : ∀ (t : Ty) (vs : List Val), wtListB env t vs = true → WTList env t vs
  | _, [], _ => by simp [WTList]
  | t, v :: vs, h => by
    simp only [wtListB, Bool.and_eq_true] at h
    simp only [WTList]
    exact ⟨wtB_sound t v h.1, wtListB_sound t vs h.2⟩
termination_by structural _ vs => vs
theorem wtKVsB_sound : ∀ (t : Ty) (kvs : List (Str × Val)), wtKVsB env t kvs = true → WTKVs env t kvs
  | _, [], _ => by simp [WTKVs]
  | t, (k, v) :: kvs, h => by
    simp only [wtKVsB, Bool.and_eq_true] at h
    simp only [WTKVs]
    exact ⟨wtB_sound t v h.1, wtKVsB_sound t kvs h.2⟩
termination_by structural _ kvs => kvs
theorem wtValsB_sound : ∀ (fs : List (Str × Bool × Ty)) (vals : List (Str × Val)), wtValsB env fs vals = true → WTVals env fs vals
  | _, [], _ => by simp [WTVals]
  | fs, (k, v) :: vals, h => by
    simp only [wtValsB, Bool.and_eq_true] at h
    simp only [WTVals]
    refine ⟨?_, wtValsB_sound fs vals h.2⟩
    cases hft : fieldType fs k with
    | none => trivial
    | some ot => have := h.1; rw [hft] at this; exact wtB_sound ot.2 v this
termination_by structural _ vals => vals
theorem wtKeysB_sound : ∀ (kvs : List (Str × Val)), wtKeysB env kvs = true → WTKeys env kvs
  | [], _ => by simp [WTKeys]
  | (k, .nil) :: kvs, h => by simp only [wtKeysB] at h; simp only [WTKeys]; exact ⟨trivial, wtKeysB_sound kvs h⟩
  | (k, .ptr (.struct sfs)) :: kvs, h => by
    simp only [wtKeysB, Bool.and_eq_true] at h
    simp only [WTKeys]
    obtain ⟨⟨⟨h0, h1⟩, h2⟩, h3⟩ := h
    exact ⟨⟨isInt1_sound _ h0, isStrK_sound k _ h1, wtB_sound env.userScope (.struct sfs) h2⟩, wtKeysB_sound kvs h3⟩
  | (k, .ptr .nil) :: kvs, h => by simp [wtKeysB] at h
  | (k, .ptr (.bool _)) :: kvs, h => by simp [wtKeysB] at h
  | (k, .ptr (.str _)) :: kvs, h => by simp [wtKeysB] at h
  | (k, .ptr (.int _)) :: kvs, h => by simp [wtKeysB] at h
  | (k, .ptr (.ptr _)) :: kvs, h => by simp [wtKeysB] at h
  | (k, .ptr (.list _)) :: kvs, h => by simp [wtKeysB] at h
  | (k, .ptr (.map _)) :: kvs, h => by simp [wtKeysB] at h
  | (k, .ptr (.any _)) :: kvs, h => by simp [wtKeysB] at h
  | (k, .bool _) :: kvs, h => by simp [wtKeysB] at h
  | (k, .str _) :: kvs, h => by simp [wtKeysB] at h
  | (k, .int _) :: kvs, h => by simp [wtKeysB] at h
  | (k, .list _) :: kvs, h => by simp [wtKeysB] at h
  | (k, .map _) :: kvs, h => by simp [wtKeysB] at h
  | (k, .struct _) :: kvs, h => by simp [wtKeysB] at h
  | (k, .any _) :: kvs, h => by simp [wtKeysB] at h
termination_by structural kvs => kvs
end

/-! ### Covers -/
mutual
def coversB : Ty → Val → Val → Bool
  | .ptr t, base, .ptr v => coversB t (match base with | .ptr b => b | _ => zero t) v
  | .slice t, _, .list vs => coversListB t vs
  | .map t, _, .map kvs => coversKVsB t kvs
  | .struct fs, .struct cur, .struct vals => coversValsB fs cur vals
  | .custom .signingKeys, _, .map kvs => coversKeysB kvs
  | _, _, _ => true
def coversListB : Ty → List Val → Bool
  | _, [] => true
  | t, v :: vs => coversB t (zero t) v && coversListB t vs
def coversKVsB : Ty → List (Str × Val) → Bool
  | _, [] => true
  | t, (_, v) :: kvs => coversB t (zero t) v && coversKVsB t kvs
def coversValsB : List (Str × Bool × Ty) → List (Str × Val) → List (Str × Val) → Bool
  | _, _, [] => true
  | fs, cur, (k, v) :: vals =>
    (match fieldType fs k, getField cur k with
     | some (om, t), some b => if om && isEmptyValue v then veqB b v else coversB t b v
     | _, _ => true) && coversValsB fs cur vals
def coversKeysB : List (Str × Val) → Bool
  | [] => true
  | (_, .ptr s) :: kvs => coversB env.userScope env.userScopeBase s && coversKeysB kvs
  | _ :: kvs => coversKeysB kvs
end

mutual
theorem coversB_sound : ∀ (t : Ty) (base v : Val), coversB env t base v = true → Covers env t base v
  | t, _, .bool _, _ => by cases t <;> simp [Covers]
  | t, _, .str _, _ => by cases t <;> simp [Covers]
  | t, _, .int _, _ => by cases t <;> simp [Covers]
  | t, _, .nil, _ => by cases t <;> simp [Covers]
  | t, _, .any _, _ => by cases t <;> simp [Covers]
  | t, base, .ptr v, h => by
    cases t with
    | ptr t' => simp only [coversB] at h; simp only [Covers]; exact coversB_sound t' _ v h
    | _ => simp [Covers]
  | t, base, .list vs, h => by
    cases t with
    | slice t' => simp only [coversB] at h; simp only [Covers]; exact coversListB_sound t' vs h
    | _ => simp [Covers]
  | t, base, .map kvs, h => by
    cases t with
    | map t' => simp only [coversB] at h; simp only [Covers]; exact coversKVsB_sound t' kvs h
    | custom c =>
      cases c <;> try (simp [Covers])
      simp only [coversB] at h; exact coversKeysB_sound kvs h
    | _ => simp [Covers]
  | t, base, .struct vals, h => by
    cases t with
    | struct fs =>
      cases base with
      | struct cur => simp only [coversB] at h; simp only [Covers]; exact coversValsB_sound fs cur vals h
      | _ => simp [Covers]
    | _ => simp [Covers]
termination_by structural _ _ v => v
theorem coversListB_sound : ∀ (t : Ty) (vs : List Val), coversListB env t vs = true → CoversList env t vs
  | _, [], _ => by simp [CoversList]
  | t, v :: vs, h => by
    simp only [coversListB, Bool.and_eq_true] at h
    simp only [CoversList]
    exact ⟨coversB_sound t _ v h.1, coversListB_sound t vs h.2⟩
termination_by structural _ vs => vs
theorem coversKVsB_sound : ∀ (t : Ty) (kvs : List (Str × Val)), coversKVsB env t kvs = true → CoversKVs env t kvs
  | _, [], _ => by simp [CoversKVs]
  | t, (k, v) :: kvs, h => by
    simp only [coversKVsB, Bool.and_eq_true] at h
    simp only [CoversKVs]
    exact ⟨coversB_sound t _ v h.1, coversKVsB_sound t kvs h.2⟩
termination_by structural _ kvs => kvs
theorem coversValsB_sound : ∀ (fs : List (Str × Bool × Ty)) (cur vals : List (Str × Val)),
    coversValsB env fs cur vals = true → CoversVals env fs cur vals
  | _, _, [], _ => by simp [CoversVals]
  | fs, cur, (k, v) :: vals, h => by
    simp only [coversValsB, Bool.and_eq_true] at h
    simp only [CoversVals]
    refine ⟨?_, coversValsB_sound fs cur vals h.2⟩
    cases hft : fieldType fs k with
    | none => simp
    | some ot =>
      cases hb : getField cur k with
      | none => simp
      | some b =>
        obtain ⟨om, t⟩ := ot
        have h1 := h.1
        rw [hft, hb] at h1
        simp only at h1 ⊢
        by_cases hom : (om && isEmptyValue v) = true
        · have hom2 : om = true ∧ isEmptyValue v = true := by simpa using hom
          rw [if_pos hom2] at h1; rw [if_pos hom]; exact veqB_sound b v h1
        · have hom2 : ¬ (om = true ∧ isEmptyValue v = true) := by simpa using hom
          rw [if_neg hom2] at h1; rw [if_neg hom]; exact coversB_sound t b v h1
termination_by structural _ _ vals => vals
theorem coversKeysB_sound : ∀ (kvs : List (Str × Val)), coversKeysB env kvs = true → CoversKeys env kvs
  | [], _ => by simp [CoversKeys]
  | (k, .ptr s) :: kvs, h => by
    simp only [coversKeysB, Bool.and_eq_true] at h
    simp only [CoversKeys]
    exact ⟨coversB_sound env.userScope env.userScopeBase s h.1, coversKeysB_sound kvs h.2⟩
  | (k, .nil) :: kvs, h => by simp only [coversKeysB] at h; simp only [CoversKeys]; exact coversKeysB_sound kvs h
  | (k, .bool _) :: kvs, h => by simp only [coversKeysB] at h; simp only [CoversKeys]; exact coversKeysB_sound kvs h
  | (k, .str _) :: kvs, h => by simp only [coversKeysB] at h; simp only [CoversKeys]; exact coversKeysB_sound kvs h
  | (k, .int _) :: kvs, h => by simp only [coversKeysB] at h; simp only [CoversKeys]; exact coversKeysB_sound kvs h
  | (k, .list _) :: kvs, h => by simp only [coversKeysB] at h; simp only [CoversKeys]; exact coversKeysB_sound kvs h
  | (k, .map _) :: kvs, h => by simp only [coversKeysB] at h; simp only [CoversKeys]; exact coversKeysB_sound kvs h
  | (k, .struct _) :: kvs, h => by simp only [coversKeysB] at h; simp only [CoversKeys]; exact coversKeysB_sound kvs h
  | (k, .any _) :: kvs, h => by simp only [coversKeysB] at h; simp only [CoversKeys]; exact coversKeysB_sound kvs h
termination_by structural kvs => kvs
end

end Jwt.Codec
