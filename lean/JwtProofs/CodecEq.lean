import JwtProofs.CodecRT
/-!
# What `overlay` preserves: `VEq (overlay t base v) v`
-/
namespace Jwt.Codec
open Jwt Jwt.Codec List

variable (env : CodecEnv)

theorem lookupV_eq_getField (k : Str) : ∀ l : List (Str × Val), lookupV k l = getField l k
  | [] => by simp [lookupV, getField]
  | (k', v) :: r => by
    rw [getField_cons]
    simp only [lookupV]
    by_cases h : k' = k <;> simp [h, lookupV_eq_getField k r]

theorem lookupV_of_mem (l : List (Str × Val)) (hnd : (l.map (·.1)).Nodup) (k : Str) (v : Val) (h : (k, v) ∈ l) :
    lookupV k l = some v := by
  rw [lookupV_eq_getField]; exact getField_eq_some_of_mem l hnd k v h

/-! ### an omitted field: the zero value stands for it -/
theorem veq_zero_of_empty (t : Ty) (v : Val) (hf : Full env t v) (he : isEmptyValue v = true) : VEq (zero t) v := by
  cases t with
  | bool => cases v <;> simp [Full] at hf; simp [isEmptyValue] at he; subst he; simp [zero, VEq]
  | str => cases v <;> simp [Full] at hf; simp [isEmptyValue] at he; subst he; simp [zero, VEq]
  | int _ _ => cases v <;> simp [Full] at hf; simp [isEmptyValue] at he; subst he; simp [zero, VEq]
  | ptr t => cases v <;> simp [Full, isEmptyValue] at hf he; simp [zero, VEq]
  | slice t =>
    cases v <;> simp [Full] at hf
    · simp [zero, VEq]
    · simp [isEmptyValue] at he; subst he; simp [zero, VEq]
  | map t =>
    cases v <;> simp [Full] at hf
    · simp [zero, VEq]
    · simp [isEmptyValue] at he; subst he; simp [zero, VEq]
  | struct fs => cases v <;> simp [Full, isEmptyValue] at hf he
  | any => cases v <;> simp [Full, isEmptyValue] at hf he; simp [zero, VEq]
  | custom c =>
    cases c with
    | exportType => cases v <;> simp [Full] at hf; simp [isEmptyValue] at he; subst he; simp [zero, VEq]
    | samplingRate => cases v <;> simp [Full] at hf; simp [isEmptyValue] at he; subst he; simp [zero, VEq]
    | scopeType => cases v <;> simp [Full] at hf; simp [isEmptyValue] at he; subst he; simp [zero, VEq]
    | cidrList =>
      cases v <;> simp [Full] at hf
      · simp [zero, VEq]
      · simp [isEmptyValue] at he; subst he; simp [zero, VEq]
    | signingKeys =>
      cases v <;> simp [Full] at hf
      · simp [zero, VEq]
      · simp [isEmptyValue] at he; subst he; simp [zero, VEq]

theorem veqList_refl_str : ∀ vs : List Val, FullList env .str vs → VEqList vs vs
  | [], _ => by simp [VEqList]
  | v :: vs, h => by
    simp only [FullList] at h
    simp only [VEqList]
    refine ⟨v, vs, rfl, ?_, veqList_refl_str vs h.2⟩
    cases v <;> simp [Full] at h
    simp [VEq]

theorem sortByKey_map_keys (g : Str × Val → Str × Val) (hg : ∀ e, (g e).1 = e.1) (kvs : List (Str × Val)) :
    (sortByKey (kvs.map g)).map (·.1) = (sortByKey kvs).map (·.1) := by
  unfold sortByKey
  rw [← map_mergeSort (r := fun a b => strLe a.1 b.1) (s := fun a b => strLe a.1 b.1) (f := g)
    (by intro a _ b _; simp [hg])]
  rw [map_map]; apply map_congr_left; intro e _; simp [hg]

section veq
variable (henv : EnvOk env)
include henv

mutual
theorem overlay_veq : ∀ (t : Ty) (base v : Val), tyOk t = true → Full env t v → WT env t v → BaseOk t base →
    Covers env t base v → VEq (overlay env t base v) v
  | t, base, .bool b, _, hf, _, _, _ => by
    cases t with
    | custom c => cases c <;> simp [Full] at hf <;> simp [overlay, VEq]
    | _ => simp [Full] at hf <;> simp [overlay, VEq]
  | t, base, .str s, _, hf, _, _, _ => by
    cases t with
    | custom c => cases c <;> simp [Full] at hf <;> simp [overlay, VEq]
    | _ => simp [Full] at hf <;> simp [overlay, VEq]
  | t, base, .int i, _, hf, _, _, _ => by
    cases t with
    | custom c => cases c <;> simp [Full] at hf <;> simp [overlay, VEq]
    | _ => simp [Full] at hf <;> simp [overlay, VEq]
  | t, base, .any j, _, hf, _, _, _ => by
    cases t with
    | custom c => cases c <;> simp [Full] at hf <;> simp [overlay, VEq]
    | _ => simp [Full] at hf <;> simp [overlay, VEq]
  | t, base, .nil, _, hf, _, hb, _ => by
    cases t with
    | custom c =>
      cases c <;> simp [Full] at hf <;> simp [overlay, VEq]
      simp only [BaseOk] at hb
      rcases hb with rfl | rfl <;> simp [skBase]
    | _ => simp [Full] at hf <;> simp [overlay, VEq]
  | t, base, .ptr v', hty, hf, hwt, hb, hc => by
    cases t with
    | custom c => cases c <;> simp [Full] at hf
    | ptr t' =>
      simp only [Full] at hf
      simp only [tyOk, Bool.and_eq_true] at hty
      simp only [WT] at hwt
      simp only [overlay, VEq]
      cases base with
      | ptr b =>
        simp only [BaseOk] at hb
        simp only [Covers] at hc
        exact ⟨_, rfl, overlay_veq t' b v' hty.2 hf hwt hb hc⟩
      | _ =>
        simp only [Covers] at hc
        exact ⟨_, rfl, overlay_veq t' (zero t') v' hty.2 hf hwt (baseOk_zero t' hty.2) hc⟩
    | _ => simp [Full] at hf
  | t, base, .list vs, hty, hf, hwt, hb, hc => by
    cases t with
    | slice t' =>
      simp only [Full] at hf
      simp only [tyOk] at hty
      simp only [WT] at hwt
      simp only [Covers] at hc
      simp only [overlay, VEq]
      exact Or.inr ⟨_, rfl, overlay_veq_list t' vs hty hf hwt hc⟩
    | custom c =>
      cases c <;> simp [Full] at hf
      simp only [overlay, VEq]
      exact Or.inr ⟨_, rfl, veqList_refl_str env vs hf⟩
    | _ => simp [Full] at hf
  | t, base, .map kvs, hty, hf, hwt, hb, hc => by
    cases t with
    | map t' =>
      simp only [Full] at hf
      simp only [tyOk] at hty
      simp only [WT] at hwt
      simp only [Covers] at hc
      simp only [overlay, VEq]
      right
      refine ⟨_, rfl, ?_, ?_⟩
      · rw [overlayKVs_eq_map]; exact sortByKey_map_keys (fun e => (e.1, overlay env t' (zero t') e.2)) (fun _ => rfl) kvs
      · have hperm : sortByKey (overlayKVs env t' kvs) ~ overlayKVs env t' kvs := mergeSort_perm _ _
        have hk : (overlayKVs env t' kvs).map (·.1) = kvs.map (·.1) := by
          rw [overlayKVs_eq_map, map_map]; rfl
        apply overlay_veq_kvs t' (sortByKey (overlayKVs env t' kvs))
          ((hperm.map (·.1)).nodup_iff.mpr (by rw [hk]; exact hwt.1)) kvs _ hty hf hwt.2 hc
        intro e he
        apply hperm.symm.subset
        rw [overlayKVs_eq_map]
        exact mem_map.mpr ⟨e, he, rfl⟩
    | custom c =>
      cases c <;> simp [Full] at hf
      -- signing keys
      simp only [WT] at hwt
      simp only [Covers] at hc
      simp only [BaseOk] at hb
      simp only [overlay, VEq]
      by_cases he : kvs.isEmpty = true
      · left
        have : kvs = [] := by simpa using he
        subst this
        rcases hb with rfl | rfl <;> simp [skBase]
      · right
        simp only [he, Bool.false_eq_true, if_false]
        refine ⟨_, rfl, ?_, ?_⟩
        · rw [overlayKeys_eq_map]; exact sortByKey_map_keys (keyOv env) (fun _ => rfl) kvs
        · have hperm : sortByKey (overlayKeys env kvs) ~ overlayKeys env kvs := mergeSort_perm _ _
          have hk : (overlayKeys env kvs).map (·.1) = kvs.map (·.1) := by
            rw [overlayKeys_eq_map, map_map]; rfl
          apply overlay_veq_keys (sortByKey (overlayKeys env kvs))
            ((hperm.map (·.1)).nodup_iff.mpr (by rw [hk]; exact hwt.1)) kvs _ hf hwt.2 hc
          intro e he'
          apply hperm.symm.subset
          rw [overlayKeys_eq_map]
          exact mem_map.mpr ⟨e, he', rfl⟩
    | _ => simp [Full] at hf
  | t, base, .struct vals, hty, hf, hwt, hb, hc => by
    cases t with
    | custom c => cases c <;> simp [Full] at hf
    | struct fs =>
      simp only [Full] at hf
      simp only [tyOk, Bool.and_eq_true, decide_eq_true_eq] at hty
      simp only [WT] at hwt
      cases base with
      | struct cur =>
        simp only [BaseOk] at hb
        simp only [Covers] at hc
        simp only [overlay, VEq]
        refine ⟨_, rfl, ?_, ?_⟩
        · unfold applyFields; rw [map_map]; simp only [Function.comp_def]; rw [hb.1, hf.1]
        · exact overlay_veq_vals fs cur vals hty.1 hty.2 hwt.1 hb vals (fun e h => h) hf.2 hwt.2 hc
      | _ => simp [BaseOk] at hb
    | _ => simp [Full] at hf
termination_by structural _ _ v => v
theorem overlay_veq_list : ∀ (t : Ty) (vs : List Val), tyOk t = true → FullList env t vs → WTList env t vs →
    CoversList env t vs → VEqList (overlayList env t vs) vs
  | _, [], _, _, _, _ => by simp [overlayList, VEqList]
  | t, v :: vs, hty, hf, hwt, hc => by
    simp only [FullList] at hf
    simp only [WTList] at hwt
    simp only [CoversList] at hc
    simp only [overlayList, VEqList]
    exact ⟨_, _, rfl, overlay_veq t (zero t) v hty hf.1 hwt.1 (baseOk_zero t hty) hc.1,
      overlay_veq_list t vs hty hf.2 hwt.2 hc.2⟩
termination_by structural _ vs => vs
theorem overlay_veq_kvs (t : Ty) (rs : List (Str × Val)) (hrs : (rs.map (·.1)).Nodup) :
    ∀ (kvs : List (Str × Val)), (∀ e ∈ kvs, (e.1, overlay env t (zero t) e.2) ∈ rs) → tyOk t = true →
      FullKVs env t kvs → WTKVs env t kvs → CoversKVs env t kvs → VEqKVs rs kvs
  | [], _, _, _, _, _ => by simp [VEqKVs]
  | (k, v) :: kvs, hin, hty, hf, hwt, hc => by
    simp only [FullKVs] at hf
    simp only [WTKVs] at hwt
    simp only [CoversKVs] at hc
    simp only [VEqKVs]
    refine ⟨⟨_, lookupV_of_mem rs hrs k _ (hin (k, v) (by simp)),
      overlay_veq t (zero t) v hty hf.1 hwt.1 (baseOk_zero t hty) hc.1⟩,
      overlay_veq_kvs t rs hrs kvs (fun e he => hin e (mem_cons_of_mem _ he)) hty hf.2 hwt.2 hc.2⟩
termination_by structural kvs => kvs
theorem overlay_veq_keys (rs : List (Str × Val)) (hrs : (rs.map (·.1)).Nodup) :
    ∀ (kvs : List (Str × Val)), (∀ e ∈ kvs, keyOv env e ∈ rs) →
      FullKeys env kvs → WTKeys env kvs → CoversKeys env kvs → VEqKVs rs kvs
  | [], _, _, _, _ => by simp [VEqKVs]
  | (k, .nil) :: kvs, hin, hf, hwt, hc => by
    simp only [FullKeys] at hf
    simp only [WTKeys] at hwt
    simp only [CoversKeys] at hc
    simp only [VEqKVs]
    exact ⟨⟨.nil, lookupV_of_mem rs hrs k _ (hin (k, .nil) (by simp)), by simp [VEq]⟩,
      overlay_veq_keys rs hrs kvs (fun e he => hin e (mem_cons_of_mem _ he)) hf hwt.2 hc⟩
  | (k, .ptr s) :: kvs, hin, hf, hwt, hc => by
    simp only [FullKeys] at hf
    simp only [CoversKeys] at hc
    have hwt' : WTKeys env kvs := ((WTKeys_cons env _ _).mp hwt).2
    have hws : WT env env.userScope s := by
      cases s <;> simp [WTKeys] at hwt
      exact hwt.1.2.2
    simp only [VEqKVs]
    refine ⟨⟨_, lookupV_of_mem rs hrs k _ (hin (k, .ptr s) (by simp)), ?_⟩,
      overlay_veq_keys rs hrs kvs (fun e he => hin e (mem_cons_of_mem _ he)) hf.2 hwt' hc.2⟩
    simp only [VEq]
    exact ⟨_, rfl, overlay_veq env.userScope env.userScopeBase s henv.ty hf.1 hws henv.base hc.1⟩
  | (k, .bool _) :: kvs, _, hf, _, _ => by simp [FullKeys] at hf
  | (k, .str _) :: kvs, _, hf, _, _ => by simp [FullKeys] at hf
  | (k, .int _) :: kvs, _, hf, _, _ => by simp [FullKeys] at hf
  | (k, .list _) :: kvs, _, hf, _, _ => by simp [FullKeys] at hf
  | (k, .map _) :: kvs, _, hf, _, _ => by simp [FullKeys] at hf
  | (k, .struct _) :: kvs, _, hf, _, _ => by simp [FullKeys] at hf
  | (k, .any _) :: kvs, _, hf, _, _ => by simp [FullKeys] at hf
termination_by structural kvs => kvs
theorem overlay_veq_vals (fs : List (Str × Bool × Ty)) (cur all : List (Str × Val)) (hfs : (fs.map (·.1)).Nodup)
    (htys : tyOkFields fs = true) (hall : (all.map (·.1)).Nodup)
    (hb : cur.map (·.1) = fs.map (·.1) ∧ BaseOkVals fs cur) :
    ∀ (vals : List (Str × Val)), (∀ e ∈ vals, e ∈ all) → FullVals env fs vals → WTVals env fs vals →
      CoversVals env fs cur vals → VEqKVs (applyFields cur (overlayVals env fs cur all)) vals
  | [], _, _, _, _ => by simp [VEqKVs]
  | (k, v) :: vals, hin, hf, hwt, hc => by
    simp only [FullVals] at hf
    simp only [WTVals] at hwt
    simp only [CoversVals] at hc
    simp only [VEqKVs]
    refine ⟨?_, overlay_veq_vals fs cur all hfs htys hall hb vals (fun e he => hin e (mem_cons_of_mem _ he)) hf.2 hwt.2 hc.2⟩
    cases hft : fieldType fs k with
    | none => have := hf.1; rw [hft] at this; exact this.elim
    | some ot =>
      obtain ⟨om, t⟩ := ot
      have hfull : Full env t v := by have := hf.1; rw [hft] at this; exact this
      have hwtv : WT env t v := by have := hwt.1; rw [hft] at this; exact this
      have hmem := mem_of_fieldType fs k om t hft
      have hkcur : k ∈ cur.map (·.1) := by rw [hb.1]; exact mem_map.mpr ⟨_, hmem, rfl⟩
      obtain ⟨b, hbk⟩ := Option.isSome_iff_exists.mp ((getField_isSome_iff cur k).mpr hkcur)
      have hgv : getField all k = some v := getField_eq_some_of_mem all hall k v (hin (k, v) (by simp))
      have hcv := hc.1
      rw [hft, hbk] at hcv
      simp only at hcv
      rw [lookupV_eq_getField, getField_applyFields, hbk]
      by_cases hom : (om && isEmptyValue v) = true
      · simp only [hom, if_true] at hcv
        have hnone : lookupV k (overlayVals env fs cur all) = none := by
          cases hl : lookupV k (overlayVals env fs cur all) with
          | none => rfl
          | some x =>
            obtain ⟨om', t', b', v', h1, h2, h3, h4, _⟩ := lookupV_overlayVals_some env fs cur all hall k x hl
            rw [hft] at h1; injection h1 with h1; injection h1 with e1 e2; subst e1; subst e2
            rw [hgv] at h3; injection h3 with h3; subst h3
            rw [hom] at h4; cases h4
        exact ⟨b, by simp [hnone], hcv⟩
      · have hom' : (om && isEmptyValue v) = false := by simpa using hom
        simp only [hom', Bool.false_eq_true, if_false] at hcv
        have hsome := lookupV_overlayVals_of env fs cur all hall k om t b v hft hbk hgv hom'
        refine ⟨overlay env t b v, by simp [hsome], ?_⟩
        exact overlay_veq t b v (tyOkFields_mem fs _ htys hmem) hfull hwtv
          (BaseOkVals_mem fs cur k b om t hb.2 (mem_of_getField _ _ _ hbk) hft) hcv
termination_by structural vals => vals
end

end veq

/-! ### the zero target covers every omitted field (types without a signing-key set) -/
mutual
def noKeys : Ty → Bool
  | .ptr t => noKeys t
  | .slice t => noKeys t
  | .map t => noKeys t
  | .struct fs => noKeysFields fs
  | .custom .signingKeys => false
  | _ => true
def noKeysFields : List (Str × Bool × Ty) → Bool
  | [] => true
  | (_, _, t) :: fs => noKeys t && noKeysFields fs
end

theorem noKeysFields_mem : ∀ (fs : List (Str × Bool × Ty)) (x : Str × Bool × Ty), noKeysFields fs = true → x ∈ fs → noKeys x.2.2 = true := by
  intro fs
  induction fs with
  | nil => intro x _ h; cases h
  | cons y fs ih =>
    intro x h hx
    obtain ⟨yk, yo, yt⟩ := y
    simp only [noKeysFields, Bool.and_eq_true] at h
    simp only [mem_cons] at hx
    rcases hx with rfl | hx
    · exact h.1
    · exact ih x h.2 hx

theorem getField_zeroFields (fs : List (Str × Bool × Ty)) (hnd : (fs.map (·.1)).Nodup) (k : Str) (om : Bool) (t : Ty)
    (h : (k, om, t) ∈ fs) : getField (zeroFields fs) k = some (zero t) := by
  induction fs with
  | nil => cases h
  | cons x r ih =>
    obtain ⟨xk, xo, xt⟩ := x
    simp only [map_cons, nodup_cons, mem_map, not_exists, not_and] at hnd
    simp only [mem_cons, Prod.mk.injEq] at h
    simp only [zeroFields, getField_cons]
    rcases h with ⟨rfl, rfl, rfl⟩ | h
    · simp
    · have hne : ¬ xk = k := fun e => hnd.1 (k, om, t) h e.symm
      simp only [hne, if_false]
      exact ih hnd.2 h

mutual
theorem covers_zero : ∀ (t : Ty) (v : Val), noKeys t = true → tyOk t = true → Full env t v → Covers env t (zero t) v
  | t, .bool _, _, _, _ => by cases t <;> simp [Covers]
  | t, .str _, _, _, _ => by cases t <;> simp [Covers]
  | t, .int _, _, _, _ => by cases t <;> simp [Covers]
  | t, .any _, _, _, _ => by cases t <;> simp [Covers]
  | t, .nil, _, _, _ => by cases t <;> simp [Covers]
  | t, .ptr v', hn, hty, hf => by
    cases t with
    | ptr t' =>
      simp only [noKeys] at hn
      simp only [tyOk, Bool.and_eq_true] at hty
      simp only [Full] at hf
      simp only [zero, Covers]
      exact covers_zero t' v' hn hty.2 hf
    | _ => simp [Covers]
  | t, .list vs, hn, hty, hf => by
    cases t with
    | slice t' =>
      simp only [noKeys] at hn
      simp only [tyOk] at hty
      simp only [Full] at hf
      simp only [Covers]
      exact covers_zero_list t' vs hn hty hf
    | _ => simp [Covers]
  | t, .map kvs, hn, hty, hf => by
    cases t with
    | map t' =>
      simp only [noKeys] at hn
      simp only [tyOk] at hty
      simp only [Full] at hf
      simp only [Covers]
      exact covers_zero_kvs t' kvs hn hty hf
    | custom c => cases c <;> simp [noKeys] at hn <;> simp [Covers]
    | _ => simp [Covers]
  | t, .struct vals, hn, hty, hf => by
    cases t with
    | struct fs =>
      simp only [noKeys] at hn
      simp only [tyOk, Bool.and_eq_true, decide_eq_true_eq] at hty
      simp only [Full] at hf
      simp only [zero, Covers]
      exact covers_zero_vals fs hty.1 hn hty.2 vals hf.2
    | _ => simp [zero, Covers] <;> (try (rename_i c; cases c <;> simp [zero, Covers]))
termination_by structural _ v => v
theorem covers_zero_list : ∀ (t : Ty) (vs : List Val), noKeys t = true → tyOk t = true → FullList env t vs → CoversList env t vs
  | _, [], _, _, _ => by simp [CoversList]
  | t, v :: vs, hn, hty, hf => by
    simp only [FullList] at hf
    simp only [CoversList]
    exact ⟨covers_zero t v hn hty hf.1, covers_zero_list t vs hn hty hf.2⟩
termination_by structural _ vs => vs
theorem covers_zero_kvs : ∀ (t : Ty) (kvs : List (Str × Val)), noKeys t = true → tyOk t = true → FullKVs env t kvs → CoversKVs env t kvs
  | _, [], _, _, _ => by simp [CoversKVs]
  | t, (k, v) :: kvs, hn, hty, hf => by
    simp only [FullKVs] at hf
    simp only [CoversKVs]
    exact ⟨covers_zero t v hn hty hf.1, covers_zero_kvs t kvs hn hty hf.2⟩
termination_by structural _ kvs => kvs
theorem covers_zero_vals (fs : List (Str × Bool × Ty)) (hnd : (fs.map (·.1)).Nodup) (hn : noKeysFields fs = true)
    (htys : tyOkFields fs = true) :
    ∀ (vals : List (Str × Val)), FullVals env fs vals → CoversVals env fs (zeroFields fs) vals
  | [], _ => by simp [CoversVals]
  | (k, v) :: vals, hf => by
    simp only [FullVals] at hf
    simp only [CoversVals]
    refine ⟨?_, covers_zero_vals fs hnd hn htys vals hf.2⟩
    cases hft : fieldType fs k with
    | none => simp
    | some ot =>
      obtain ⟨om, t⟩ := ot
      have hfull : Full env t v := by have := hf.1; rw [hft] at this; exact this
      have hmem := mem_of_fieldType fs k om t hft
      rw [getField_zeroFields fs hnd k om t hmem]
      simp only
      by_cases hom : (om && isEmptyValue v) = true
      · simp only [hom, if_true]
        exact veq_zero_of_empty env t v hfull (by simp at hom; exact hom.2)
      · simp only [hom, Bool.false_eq_true, if_false]
        exact covers_zero t v (noKeysFields_mem fs _ hn hmem) (tyOkFields_mem fs _ htys hmem) hfull
termination_by structural vals => vals
end

end Jwt.Codec
