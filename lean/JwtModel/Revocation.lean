import JwtModel.Text
/-!
# Revocation lists (v2/revocation_list.go, wrappers in account_claims.go / exports.go)

A Go `map[string]int64` is an association list with distinct keys (`Nodup` is an invariant proved in
JwtProofs/Revocation.lean, not a subtype). Times are Unix seconds (`time.Time.Unix()`).
-/
namespace Jwt.Rev
variable {α : Type} [DecidableEq α]

abbrev M (α : Type) := List (α × Int)

def lookup (k : α) : M α → Option Int
  | [] => none
  | (k', v) :: r => if k' = k then some v else lookup k r

def erase (k : α) (m : M α) : M α := m.filter (fun p => p.1 ≠ k)

def keys (m : M α) : List α := m.map (·.1)

/-- Go: `if ts, ok := r[k]; ok && ts > newTS { return }; r[k] = newTS` -/
def revoke (m : M α) (k : α) (t : Int) : M α :=
  match lookup k m with
  | some ts => if ts > t then m else (k, t) :: erase k m
  | none => (k, t) :: erase k m

def clear (m : M α) (k : α) : M α := erase k m

def geOpt (o : Option Int) (t : Int) : Bool := match o with | some ts => decide (ts ≥ t) | none => false

/-- Go: `allRevoked(t) || (ok && ts >= t)` -/
def isRevoked (all : α) (m : M α) (k : α) (t : Int) : Bool :=
  geOpt (lookup all m) t || geOpt (lookup k m) t

/-- Go `MaybeCompact`: delete entries `k ≠ All` with `ats >= ts`; return them -/
def compact (all : α) (m : M α) : M α × M α :=
  match lookup all m with
  | none => (m, [])
  | some ats => (m.filter (fun p => p.1 = all ∨ ¬ (ats ≥ p.2)), m.filter (fun p => p.1 ≠ all ∧ ats ≥ p.2))


inductive Op (α : Type) where
  | revokeAt (k : α) (t : Int) | clear (k : α) | compact

def step (all : α) (m : M α) : Op α → M α
  | .revokeAt k t => revoke m k t
  | .clear k => clear m k
  | .compact => (compact all m).1

/-- `AccountClaims.IsClaimRevoked` / `Export.IsClaimRevoked`: a missing claim, issue time or subject is
reported as revoked. `claim = none` models the nil pointer; `(sub, iat)` otherwise. -/
def isClaimRevoked (all : α) (empty : α) (m : M α) (claim : Option (α × Int)) : Bool :=
  match claim with
  | none => true
  | some (sub, iat) => if iat = 0 ∨ sub = empty then true else isRevoked all m sub iat

end Jwt.Rev
