import JwtModel.Encode
import JwtModel.Validate
/-!
# Scoped signing keys and the one-call user-token issuer
(`UserScope.ValidateScopedSigner`, `UserClaims.HasEmptyPermissions`, `UserClaims.SetScoped`, `NewUserClaims`,
`IssueUserJWT` — v2/signingkeys.go, v2/user_claims.go, v2/creds_utils.go)
-/
namespace Jwt
open Jwt.Codec

mutual
/-- is this the Go zero value (what `reflect.DeepEqual(x, T{})` tests)? A non-nil empty slice or map is not. -/
def isZeroVal : Val → Bool
  | .bool b => !b
  | .str s => s.isEmpty
  | .int i => i == 0
  | .nil => true
  | .ptr _ => false
  | .list _ => false
  | .map _ => false
  | .struct fs => isZeroFields fs
  | .any _ => false
def isZeroFields : List (Str × Val) → Bool
  | [] => true
  | (_, v) :: r => isZeroVal v && isZeroFields r
end

/-- the JSON keys of `UserPermissionLimits` inside a user's `nats` section -/
def permLimitKeys : List String :=
  ["pub", "sub", "resp", "src", "times", "times_location", "subs", "data", "payload", "bearer_token", "allowed_connection_types"]

/-- `UserClaims.HasEmptyPermissions`: `reflect.DeepEqual(u.UserPermissionLimits, UserPermissionLimits{})` -/
def hasEmptyPermissions (u : Val) : Bool :=
  permLimitKeys.all fun k => isZeroVal ((u.field "nats").field k)

/-- `UserScope.ValidateScopedSigner(claim)`: `true` = nil error -/
def validateScopedSigner (scopeKey : Str) (c : Claims) : Bool :=
  decide (c.kind = .user) && decide (c.issuer = scopeKey) && hasEmptyPermissions c.val

/-- `NewUserClaims(subject)` followed by `SetScoped(true)`: every permission and limit zeroed -/
def newScopedUser (subject : Str) : Val :=
  (zero Gen.V2.UserClaims).set "sub" (.str subject)

/-- `NewUserClaims(subject)`: empty source list, unlimited NATS limits -/
def newUserClaims (subject : Str) : Val :=
  let z := (zero Gen.V2.UserClaims).set "sub" (.str subject)
  setNats z fun n => (((n.set "src" (.list [])).set "subs" (.int Gen.V2.cNoLimit)).set "data" (.int Gen.V2.cNoLimit)).set "payload" (.int Gen.V2.cNoLimit)

/-- the claims object `IssueUserJWT` hands to `Encode`.
`expires` = `time.Now().Add(d).UTC().Unix()` when `d ≠ 0` (the caller of the model supplies it), else 0. -/
def issueUserClaims (accountId userKey name : Str) (expires : Int) (tags : Option (List Str)) : Val :=
  let c := newScopedUser userKey
  let c := c.set "exp" (.int expires)
  let c := c.set "name" (.str (if name ≠ [] then name else userKey))
  setNats c fun n => (n.set "issuer_account" (.str accountId)).set "tags"
    (match tags with | none => .nil | some ts => .list (ts.map .str))

/-- `IssueUserJWT(scopedSigningKey, accountId, publicUserKey, name, expirationDuration, tags...)` -/
def issueUserJWT (env : EncEnv) (accountId userKey name : Str) (expires : Int) (tags : Option (List Str)) : DRes (Val × Str) :=
  if !validAcct accountId then .error .err
  else if !validUser userKey then .error .err
  else encode env .user (issueUserClaims accountId userKey name expires tags)

/-- `time.Now().Add(d).Unix()`: floor of (nanoseconds / 10^9) -/
def expiryOf (nowNanos d : Int) : Int := if d = 0 then 0 else (nowNanos + d) / 1000000000

end Jwt
