import JwtModel.Text
/-!
# Activation hash identity: `cleanSubject`, `ActivationClaims.HashID` (v2/activation_claims.go; the v1compat
copies are tied by digest equality and by correspondence). SHA-256 is a parameter.
-/
namespace Jwt

def isWild (t : List Char) : Bool := t = ['*'] || t = ['>']

/-- Go `cleanSubject` on the token list (before the `cleaned == ""` fallback) -/
def cleanToks : List (List Char) → Option (List (List Char))   -- none = no wildcard found
  | [] => none
  | t :: ts => if isWild t then some [] else (cleanToks ts).map (t :: ·)

def cleanSubject (s : List Char) : List Char :=
  let toks := splitOn '.' s
  match toks with
  | [] => s
  | t :: _ =>
    if isWild t then ['_']
    else match cleanToks toks with
      | none => s
      | some pre => let c := join '.' pre; if c = [] then s else c


/-- the string that is hashed: `fmt.Sprintf("%s.%s.%s", issuer, subject, cleanSubject(importSubject))` -/
def hashIdBase (issuer subject importSubject : Str) : Str :=
  issuer ++ '.' :: (subject ++ '.' :: cleanSubject importSubject)

/-- `HashID()`: `none` = error ("not enough data"); `digest` = base32(SHA-256(·)) -/
def hashId (digest : Str → Str) (issuer subject importSubject : Str) : Option Str :=
  if issuer = [] ∨ subject = [] ∨ importSubject = [] then none
  else some (digest (hashIdBase issuer subject importSubject))

end Jwt
