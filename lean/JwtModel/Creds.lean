import JwtModel.Decode
import JwtModel.Gen.Consts
/-!
# Credential files: `formatJwt`, `DecorateSeed`, `FormatUserConfig`, `ParseDecoratedJWT`, `ParseDecoratedNKey`,
`ParseDecoratedUserNKey` (v2/creds_utils.go)

`matchHere` / `findBlocks` are a hand matcher for the library's one regular expression
`\s*(?:(?:[-]{3,}.*[-]{3,}\r?\n)([\w\-.=]+)(?:\r?\n[-]{3,}.*[-]{3,}(\r?\n|\z)))` under Go's leftmost semantics
(`FindAllSubmatch`): it is deterministic because no alternative of the pattern can succeed after the greedy one
fails; it is validated against Go's `regexp` by the correspondence stream on adversarial text.
-/
namespace Jwt.Creds
open Jwt

def isSpace (c : Char) : Bool := c = ' ' || c = '\t' || c = '\n' || c = '\x0c' || c = '\r'
def isTok (c : Char) : Bool := c.isAlphanum || c = '_' || c = '-' || c = '.' || c = '='
def isDash (c : Char) : Bool := c = '-'
def notNL (c : Char) : Bool := c ≠ '\n'

/-- `-{3,}.*-{3,}` matched against a whole line (no newline inside): ≥ 6 chars, 3 dashes at each end -/
def dashX (x : Str) : Bool :=
  decide (x.length ≥ 6) && (x.take 3).all isDash && (x.reverse.take 3).all isDash

def dashLine (r : Str) : Bool := dashX r || (r.getLast? = some '\r' && dashX r.dropLast)

/-- split at the first newline -/
def splitNL (l : Str) : Option (Str × Str) :=
  match l.dropWhile notNL with
  | [] => none
  | _ :: r => some (l.takeWhile notNL, r)

/-- one match of the pattern starting at the head of `l`: (captured text, rest after the match) -/
def matchHere (l : Str) : Option (Str × Str) :=
  match splitNL (l.dropWhile isSpace) with
  | none => none
  | some (opn, l2) =>
    if dashLine opn = false then none else
    let cap := l2.takeWhile isTok
    if cap = [] then none else
    let l4 := match l2.dropWhile isTok with | '\r' :: r => r | r => r
    match l4 with
    | '\n' :: l5 =>
      (match splitNL l5 with
       | some (cls, l6) => if dashLine cls then some (cap, l6) else none
       | none => if dashX l5 then some (cap, []) else none)
    | _ => none

/-- `userConfigRE.FindAllSubmatch(contents, -1)`: the captured groups, left to right -/
def findBlocks : Nat → Str → List Str
  | 0, _ => []
  | f+1, l =>
    match matchHere l with
    | some (cap, rest) => cap :: findBlocks f rest
    | none =>
      match l with
      | [] => []
      | _ :: t => findBlocks f t

def blocks (l : Str) : List Str := findBlocks (l.length + 1) l

def pBegin : Str := "-----BEGIN NATS ".toList
def pBeginEnd : Str := " JWT-----".toList
def pEnd : Str := "------END NATS ".toList
def pEndEnd : Str := " JWT------".toList

/-- `formatJwt(kind, jwtString)`: `-----BEGIN NATS <KIND> JWT-----\n<token>\n------END NATS <KIND> JWT------\n\n` -/
def formatJwt (kind tok : Str) : Str :=
  (pBegin ++ goUpper kind ++ pBeginEnd) ++ '\n' :: (tok ++ '\n' :: ((pEnd ++ goUpper kind ++ pEndEnd) ++ ['\n', '\n']))

def seedHeader (kind : Str) : Str :=
  ("************************* IMPORTANT *************************\n" ++
   "NKEY Seed printed below can be used to sign and prove identity.\n" ++
   "NKEYs are sensitive and should be treated as secrets.\n\n-----BEGIN ").toList ++ kind ++ " NKEY SEED-----\n".toList
def seedFooter (kind : Str) : Str :=
  "\n------END ".toList ++ kind ++ " NKEY SEED------\n\n*************************************************************\n".toList

/-- `DecorateSeed(seed)`: `none` = error -/
def decorateSeed (seed : Str) : Option Str :=
  let ts := trimSpace seed
  let kind : Option Str :=
    match ts with
    | 'S' :: 'U' :: _ => some "USER".toList
    | 'S' :: 'A' :: _ => some "ACCOUNT".toList
    | 'S' :: 'O' :: _ => some "OPERATOR".toList
    | _ => none
  match kind with
  | some k => some (seedHeader k ++ ts ++ seedFooter k)
  | none => none

/-- `Claims.ClaimType()` -/
def claimTypeOf (c : Claims) : Str :=
  match c.kind with
  | .generic =>
    let data := (c.val.field "nats")
    let look (m : List (Str × Val)) (k : String) : Option Val := (m.find? (fun e => e.1 = k.toList)).map (·.2)
    let m := match data with | .map m => m | _ => []
    let v : Option Val := match look m "type" with
      | some x => some x
      | none => match look m "nats" with
        | some (.any (.obj kv)) => (Json.lookup "type".toList kv).map Val.any
        | some x => some x
        | none => none
    match v with
    | some (.any (.str s)) => if (kindOfType s).isSome then s else Gen.V2.cGenericClaim
    | _ => []
  | _ => ((c.val.field "nats").field "type").asStr

/-- `DecorateJWT(jwtString)` -/
def decorateJWT (cr : Crypto) (tok : Str) : DRes Str := do
  let c ← decode cr tok
  pure (formatJwt (claimTypeOf c) tok)

/-- `FormatUserConfig(jwtString, seed)` -/
def formatUserConfig (cr : Crypto) (tok seed : Str) : DRes Str := do
  let c ← decode cr tok
  if claimTypeOf c ≠ Gen.V2.cUserClaim then .error .err
  else if !isPrefixB ['S', 'U'] (trimSpace seed) then .error .err
  else match decorateSeed seed with
    | some d => pure (formatJwt (claimTypeOf c) tok ++ d)
    | none => .error .err

/-- `ParseDecoratedJWT(contents)` -/
def parseDecoratedJWT (contents : Str) : Str :=
  match blocks contents with
  | [] => contents
  | t :: _ => t

def hasSeedPrefix (s : Str) : Bool := isPrefixB ['S', 'O'] s || isPrefixB ['S', 'A'] s || isPrefixB ['S', 'U'] s

/-- the seed text `ParseDecoratedNKey` hands to `nkeys.FromSeed`: `none` = "no nkey seed found" / "doesn't contain a seed nkey" -/
def decoratedSeedText (contents : Str) : Option Str :=
  let seed : Option Str :=
    match blocks contents with
    | _ :: s :: _ => some s
    | _ => (splitOn '\n' contents).find? (fun line => hasSeedPrefix (trimSpace line))
  match seed with
  | some s => if hasSeedPrefix s then some s else none
  | none => none

/-- nkeys `DecodeSeed`: the role a seed string encodes (`none` = not a valid seed) -/
def seedRole (s : Str) : Option NKey.Role :=
  match NKey.decodeKey s with
  | some (b0 :: b1 :: _) =>
    if b0 / 8 * 8 = 18 * 8 then NKey.roleOfPrefix ((b0 % 8) * 32 + b1 / 8) else none
  | _ => none

end Jwt.Creds
