import JwtModel.Text
import JwtModel.Utf8
/-!
# Run-time prelude for functions translated from Go (`Gen/Fn.lean`)

`/verif/extract/gofn.go` translates a whitelisted set of small Go functions of nats-io/jwt, statement by statement,
into Lean definitions in the `Option` monad (`none` = a Go run-time panic: index out of range, slice bounds, write
to a nil map). This file is the hand-written vocabulary those definitions are written in; it is small, total and
core-only so that the compiled driver can execute translated functions too.

Modelling decisions (part of the trusted base, DESIGN 0.7):
* Go `string` = `Str` (valid UTF-8); `len(s)`, `s[i]`, `s[i:j]` go through the UTF-8 encoding;
* Go `int`, `int64` = `Int` (no wrap-around: none of the translated functions computes beyond ±2^62 on its inputs);
* a slice is an immutable `List`: `append` and re-slicing build new lists, so aliasing of backing arrays between two
  live slice values is not modelled (the translated functions never keep two);
* a map is `Option (List (K × V))` (`none` = nil map) with distinct keys; `range` visits a snapshot in list order,
  i.e. in an arbitrary but fixed order;
* `for … range` is `forRange`: the body returns `Ctl.next` (fall through / `continue`), `Ctl.brk` (`break`) or
  `Ctl.ret` (`return` from the enclosing function).
-/
namespace Jwt.GoRt

/-- outcome of one iteration of a loop body -/
inductive Ctl (σ ρ : Type) where
  | next (s : σ) | brk (s : σ) | ret (r : ρ)

/-- outcome of a whole loop -/
inductive Loop (σ ρ : Type) where
  | done (s : σ) | ret (r : ρ)

/-- `for i, x := range xs { body }` with loop-carried state `σ` and function result type `ρ` -/
def forRangeFrom {α σ ρ : Type} (body : Int → α → σ → Option (Ctl σ ρ)) : Int → List α → σ → Option (Loop σ ρ)
  | _, [], s => some (.done s)
  | i, x :: xs, s =>
    match body i x s with
    | none => none
    | some (.next s') => forRangeFrom body (i + 1) xs s'
    | some (.brk s') => some (.done s')
    | some (.ret r) => some (.ret r)

def forRange {α σ ρ : Type} (xs : List α) (s : σ) (body : Int → α → σ → Option (Ctl σ ρ)) : Option (Loop σ ρ) :=
  forRangeFrom body 0 xs s

/-- `len(xs)` of a slice -/
def len {α : Type} (xs : List α) : Int := (xs.length : Int)

/-- `xs[i]` of a slice -/
def idx {α : Type} (xs : List α) (i : Int) : Option α :=
  if i < 0 then none else xs[i.toNat]?

/-- `xs[lo:hi]` of a slice (capacity = length in this model) -/
def slice {α : Type} (xs : List α) (lo hi : Int) : Option (List α) :=
  if 0 ≤ lo ∧ lo ≤ hi ∧ hi ≤ len xs then some ((xs.take hi.toNat).drop lo.toNat) else none

/-- `xs[lo:]` -/
def sliceFrom {α : Type} (xs : List α) (lo : Int) : Option (List α) := slice xs lo (len xs)
/-- `xs[:hi]` -/
def sliceTo {α : Type} (xs : List α) (hi : Int) : Option (List α) := slice xs 0 hi

/-- `len(s)` of a string: bytes -/
def strLen (s : Str) : Int := (utf8Len s : Int)

/-- `s[i]` of a string: the i-th byte of its UTF-8 encoding -/
def strByte (s : Str) (i : Int) : Option Int := (idx (Utf8.encode s) i).map Int.ofNat

/-- `s[lo:hi]` of a string; `none` for bad bounds; a cut inside a code point is outside the model (`none`, flagged
by the correspondence run as `unsupported` rather than guessed) -/
def strSlice (s : Str) (lo hi : Int) : Option Str :=
  match slice (Utf8.encode s) lo hi with
  | none => none
  | some bs => Utf8.decode bs

/-- `[]byte(s)`: the UTF-8 bytes of a string -/
def strBytes (s : Str) : List Int := (Utf8.encode s).map Int.ofNat

/-- `bytes.HasPrefix(s, prefix)` -/
def bytesHasPrefix (s pre : List Int) : Bool := pre.isPrefixOf s

def strSliceFrom (s : Str) (lo : Int) : Option Str := strSlice s lo (strLen s)
def strSliceTo (s : Str) (hi : Int) : Option Str := strSlice s 0 hi

/-- `strings.Split(s, sep)`; only one-character separators occur in the translated functions -/
def split (s sep : Str) : List Str :=
  match sep with
  | [c] => splitOn c s
  | _ => [s]

/-- `strings.Join(ts, sep)` -/
def joinWith (ts : List Str) (sep : Str) : Str :=
  match ts with
  | [] => []
  | [t] => t
  | t :: r => t ++ sep ++ joinWith r sep

def hasPrefix (s pat : Str) : Bool := isPrefixB pat s
def hasSuffix (s pat : Str) : Bool := isSuffixB pat s
def contains (s pat : Str) : Bool := isInfixB pat s

/-! maps -/
abbrev GoMap (κ ν : Type) := Option (List (κ × ν))

def mapLookup {κ ν : Type} [DecidableEq κ] (k : κ) : List (κ × ν) → Option ν
  | [] => none
  | (k', v) :: r => if k' = k then some v else mapLookup k r

/-- `v, ok := m[k]` -/
def mapGet {κ ν : Type} [DecidableEq κ] (m : GoMap κ ν) (k : κ) : Option ν :=
  match m with | none => none | some l => mapLookup k l

/-- `m[k] = v`: panics on a nil map -/
def mapSet {κ ν : Type} [DecidableEq κ] (m : GoMap κ ν) (k : κ) (v : ν) : Option (GoMap κ ν) :=
  match m with
  | none => none
  | some l => some (some ((k, v) :: l.filter (fun p => p.1 ≠ k)))

/-- `delete(m, k)`: a no-op on a nil map -/
def mapDelete {κ ν : Type} [DecidableEq κ] (m : GoMap κ ν) (k : κ) : GoMap κ ν :=
  match m with
  | none => none
  | some l => some (l.filter (fun p => p.1 ≠ k))

/-- the entries `range m` visits -/
def mapEntries {κ ν : Type} (m : GoMap κ ν) : List (κ × ν) :=
  match m with | none => [] | some l => l

/-- `len(m)` of a map -/
def mapLen {κ ν : Type} (m : GoMap κ ν) : Int := ((mapEntries m).length : Int)

/-- unsigned 64-bit subtraction (wraps) -/
def usub (a b : Int) : Int := if a ≥ b then a - b else a - b + 18446744073709551616

end Jwt.GoRt
