import JwtModel.Codec
/-!
# Closed form of "marshal, then unmarshal into `base`" (`overlay`), well-typedness, bases

`overlay t base v` is what decoding the encoding of `v` (a value of type `t`) into a target currently holding
`base` yields — written directly on values, without JSON and without fuel, by structural recursion on `v`:

* a field dropped by `omitempty` keeps what the target held;
* a native map comes back in key order;
* free-form data comes back canonicalised (`canonAny`);
* a signing-key set comes back in key order, every scope overlaid on `NewUserScope()`'s defaults and filed under
  the scope's own key.

`JwtProofs/CodecRT.lean` proves `unmarshal (marshal v) = overlay v` for every well-typed value; `Props/CodecRoundTrip`
shows what `overlay` loses (nothing but nil-vs-empty and map order, when the base is the zero value).
-/
namespace Jwt.Codec

def lookupV (k : Str) : List (Str × Val) → Option Val
  | [] => none
  | (k', v) :: r => if k' = k then some v else lookupV k r

/-- lay the computed field values over the target's field list -/
def applyFields (cur : List (Str × Val)) (ov : List (Str × Val)) : List (Str × Val) :=
  cur.map fun e => (e.1, (lookupV e.1 ov).getD e.2)

/-- what `SigningKeys.UnmarshalJSON` leaves when it receives `null` -/
def skBase : Val → Val
  | .map m => .map m
  | _ => .map []

def fieldType (fs : List (Str × Bool × Ty)) (k : Str) : Option (Bool × Ty) :=
  match fs.find? (fun f => f.1 = k) with
  | some (_, om, t) => some (om, t)
  | none => none

variable (env : CodecEnv)

mutual
def overlay : Ty → Val → Val → Val
  | .ptr t', base, .ptr v' => .ptr (overlay t' (match base with | .ptr b => b | _ => zero t') v')
  | .slice t', _, .list vs => .list (overlayList t' vs)
  | .map t', _, .map kvs => .map (sortByKey (overlayKVs t' kvs))
  | .struct fs, .struct cur, .struct vals => .struct (applyFields cur (overlayVals fs cur vals))
  | .any, _, .any j => .any (canonAny 200 j)
  | .custom .signingKeys, base, .nil => skBase base
  | .custom .signingKeys, base, .map kvs =>
    if kvs.isEmpty then skBase base else .map (sortByKey (overlayKeys kvs))
  | _, _, v => v
def overlayList : Ty → List Val → List Val
  | _, [] => []
  | t, v :: vs => overlay t (zero t) v :: overlayList t vs
def overlayKVs : Ty → List (Str × Val) → List (Str × Val)
  | _, [] => []
  | t, (k, v) :: kvs => (k, overlay t (zero t) v) :: overlayKVs t kvs
/-- the fields that are written (not dropped by `omitempty`), each decoded over what the target holds -/
def overlayVals : List (Str × Bool × Ty) → List (Str × Val) → List (Str × Val) → List (Str × Val)
  | _, _, [] => []
  | fs, cur, (k, v) :: vals =>
    match fieldType fs k, getField cur k with
    | some (om, t), some b =>
      if om && isEmptyValue v then overlayVals fs cur vals
      else (k, overlay t b v) :: overlayVals fs cur vals
    | _, _ => overlayVals fs cur vals
/-- signing keys: a plain key stays; a scope is decoded over `NewUserScope()` -/
def overlayKeys : List (Str × Val) → List (Str × Val)
  | [] => []
  | (k, v) :: kvs =>
    match v with
    | .ptr s => (k, .ptr (overlay env.userScope env.userScopeBase s)) :: overlayKeys kvs
    | other => (k, other) :: overlayKeys kvs
end

end Jwt.Codec

namespace Jwt.Codec

/-! ### types the canonicalising trip through `map[string]interface{}` cannot disturb, and fuel slack -/
mutual
/-- no native map, free-form data or signing-key set inside (all of `UserScope` is like this) -/
def simple : Ty → Bool
  | .ptr t => simple t
  | .slice t => simple t
  | .map _ => false
  | .struct fs => simpleFields fs
  | .any => false
  | .custom .signingKeys => false
  | _ => true
def simpleFields : List (Str × Bool × Ty) → Bool
  | [] => true
  | (_, _, t) :: fs => simple t && simpleFields fs
end

variable (sc : Nat)

mutual
/-- extra fuel the decoder may need over the encoder: object members can arrive in another order
(`sc`: the slack of the scope type behind a signing-key set) -/
def slack : Ty → Nat
  | .ptr t => slack t
  | .slice t => slack t
  | .map t => slack t
  | .struct fs => fs.length + 1 + slackFields fs
  | .custom .signingKeys => 2 + sc
  | _ => 0
def slackFields : List (Str × Bool × Ty) → Nat
  | [] => 0
  | (_, _, t) :: fs => slack t + slackFields fs
end

end Jwt.Codec

namespace Jwt.Codec

/-! ### what a schema, a value and a decode target must satisfy -/
def isStructTy : Ty → Bool
  | .struct _ => true
  | _ => false

mutual
/-- schema conditions: JSON keys of a struct are pairwise different; pointers point to structs -/
def tyOk : Ty → Bool
  | .ptr t => isStructTy t && tyOk t
  | .slice t => tyOk t
  | .map t => tyOk t
  | .struct fs => decide ((fs.map (·.1)).Nodup) && tyOkFields fs
  | _ => true
def tyOkFields : List (Str × Bool × Ty) → Bool
  | [] => true
  | (_, _, t) :: fs => tyOk t && tyOkFields fs
end

/-- free-form data the model follows through `interface{}` (see `anySupported`) -/
def anyOk (j : Json) : Prop :=
  j ≠ .null ∧ anySupported (jsonSize 200 (canonAny 200 j) + 2) (canonAny 200 j) = true

variable (env : CodecEnv)

mutual
/-- what the encoder does not check itself: integer ranges, distinct map keys (a Go map), distinct field
names (a Go struct), supported free-form data, scopes filed under their own key -/
def WT : Ty → Val → Prop
  | .int sg bits, .int i => intMin sg bits ≤ i ∧ i ≤ intMax sg bits
  | .ptr t, .ptr v => WT t v
  | .slice t, .list vs => WTList t vs
  | .map t, .map kvs => (kvs.map (·.1)).Nodup ∧ WTKVs t kvs
  | .struct fs, .struct vals => (vals.map (·.1)).Nodup ∧ WTVals fs vals
  | .any, .any j => anyOk j
  | .custom .signingKeys, .map kvs => (kvs.map (·.1)).Nodup ∧ WTKeys kvs
  | _, _ => True
def WTList : Ty → List Val → Prop
  | _, [] => True
  | t, v :: vs => WT t v ∧ WTList t vs
def WTKVs : Ty → List (Str × Val) → Prop
  | _, [] => True
  | t, (_, v) :: kvs => WT t v ∧ WTKVs t kvs
def WTVals : List (Str × Bool × Ty) → List (Str × Val) → Prop
  | _, [] => True
  | fs, (k, v) :: vals =>
    (match fieldType fs k with
     | some (_, t) => WT t v
     | none => True) ∧ WTVals fs vals
def WTKeys : List (Str × Val) → Prop
  | [] => True
  | (k, v) :: kvs =>
    (match v with
     | .nil => True
     | .ptr (.struct sfs) =>
       getField sfs "kind".toList = some (.int 1) ∧ getField sfs "key".toList = some (.str k) ∧
       WT env.userScope (.struct sfs)
     | _ => False) ∧ WTKeys kvs
end

mutual
/-- a decode target the decoder can write into: every struct level carries exactly the schema's fields and
no container is pre-loaded -/
def BaseOk : Ty → Val → Prop
  | .slice _, b => isLoadedContainer b = false
  | .map _, b => isLoadedContainer b = false
  | .struct fs, .struct cur => cur.map (·.1) = fs.map (·.1) ∧ BaseOkVals fs cur
  | .struct _, _ => False
  | .ptr t, .ptr b => BaseOk t b
  | .custom .signingKeys, b => b = .nil ∨ b = .map []
  | _, _ => True
def BaseOkVals : List (Str × Bool × Ty) → List (Str × Val) → Prop
  | _, [] => True
  | fs, (k, b) :: cur =>
    (match fieldType fs k with
     | some (_, t) => BaseOk t b
     | none => True) ∧ BaseOkVals fs cur
end

/-- the environment of the signing-key codec: `UserScope` is a plain struct type starting with the kind tag
and the key, and `NewUserScope()` is a well-formed target for it -/
structure EnvOk : Prop where
  ty : tyOk env.userScope = true
  simp : simple env.userScope = true
  base : BaseOk env.userScope env.userScopeBase
  shape : ∃ fs, env.userScope = .struct fs ∧
    fieldType fs "kind".toList = some (false, .custom .scopeType) ∧
    fieldType fs "key".toList = some (false, .str)

end Jwt.Codec

namespace Jwt.Codec

/-! ### "the same value": equality up to what the wire format cannot tell apart -/
mutual
/-- `VEq r v`: `r` is `v` up to nil-versus-empty containers, the order of map entries, and canonicalised
free-form data. (A nil signing-key set may come back as the empty set the account decoder pre-allocates.) -/
def VEq : Val → Val → Prop
  | r, .bool b => r = .bool b
  | r, .str s => r = .str s
  | r, .int i => r = .int i
  | r, .nil => r = .nil ∨ r = .map []
  | r, .ptr v => ∃ r', r = .ptr r' ∧ VEq r' v
  | r, .list vs => (vs = [] ∧ r = .nil) ∨ ∃ rs, r = .list rs ∧ VEqList rs vs
  | r, .map kvs => (kvs = [] ∧ (r = .nil ∨ r = .map [])) ∨
      ∃ rs, r = .map rs ∧ rs.map (·.1) = (sortByKey kvs).map (·.1) ∧ VEqKVs rs kvs
  | r, .struct vals => ∃ rs, r = .struct rs ∧ rs.map (·.1) = vals.map (·.1) ∧ VEqKVs rs vals
  | r, .any j => r = .any (canonAny 200 j)
def VEqList : List Val → List Val → Prop
  | rs, [] => rs = []
  | rs, v :: vs => ∃ r rs', rs = r :: rs' ∧ VEq r v ∧ VEqList rs' vs
/-- every entry of the original is found under its key -/
def VEqKVs : List (Str × Val) → List (Str × Val) → Prop
  | _, [] => True
  | rs, (k, v) :: kvs => (∃ r, lookupV k rs = some r ∧ VEq r v) ∧ VEqKVs rs kvs
end

variable (env : CodecEnv)

mutual
/-- `Full t v`: `v` is a Go value of type `t` (every struct level carries exactly the schema's fields) -/
def Full : Ty → Val → Prop
  | .bool, .bool _ => True
  | .str, .str _ => True
  | .int _ _, .int _ => True
  | .ptr _, .nil => True
  | .ptr t, .ptr v => Full t v
  | .slice _, .nil => True
  | .slice t, .list vs => FullList t vs
  | .map _, .nil => True
  | .map t, .map kvs => FullKVs t kvs
  | .struct fs, .struct vals => vals.map (·.1) = fs.map (·.1) ∧ FullVals fs vals
  | .any, .nil => True
  | .any, .any _ => True
  | .custom .exportType, .int _ => True
  | .custom .samplingRate, .int _ => True
  | .custom .scopeType, .int _ => True
  | .custom .cidrList, .nil => True
  | .custom .cidrList, .list vs => FullList .str vs
  | .custom .signingKeys, .nil => True
  | .custom .signingKeys, .map kvs => FullKeys kvs
  | _, _ => False
def FullList : Ty → List Val → Prop
  | _, [] => True
  | t, v :: vs => Full t v ∧ FullList t vs
def FullKVs : Ty → List (Str × Val) → Prop
  | _, [] => True
  | t, (_, v) :: kvs => Full t v ∧ FullKVs t kvs
def FullVals : List (Str × Bool × Ty) → List (Str × Val) → Prop
  | _, [] => True
  | fs, (k, v) :: vals =>
    (match fieldType fs k with
     | some (_, t) => Full t v
     | none => False) ∧ FullVals fs vals
def FullKeys : List (Str × Val) → Prop
  | [] => True
  | (_, .nil) :: kvs => FullKeys kvs
  | (_, .ptr s) :: kvs => Full env.userScope s ∧ FullKeys kvs
  | _ :: _ => False
end

mutual
/-- `Covers t base v`: wherever `omitempty` drops a field of `v`, the decode target already holds an equal
value (always true for the zero target; for `NewUserScope()` it fails exactly on a zero limit: finding K2) -/
def Covers : Ty → Val → Val → Prop
  | .ptr t, base, .ptr v => Covers t (match base with | .ptr b => b | _ => zero t) v
  | .slice t, _, .list vs => CoversList t vs
  | .map t, _, .map kvs => CoversKVs t kvs
  | .struct fs, .struct cur, .struct vals => CoversVals fs cur vals
  | .custom .signingKeys, _, .map kvs => CoversKeys kvs
  | _, _, _ => True
def CoversList : Ty → List Val → Prop
  | _, [] => True
  | t, v :: vs => Covers t (zero t) v ∧ CoversList t vs
def CoversKVs : Ty → List (Str × Val) → Prop
  | _, [] => True
  | t, (_, v) :: kvs => Covers t (zero t) v ∧ CoversKVs t kvs
def CoversVals : List (Str × Bool × Ty) → List (Str × Val) → List (Str × Val) → Prop
  | _, _, [] => True
  | fs, cur, (k, v) :: vals =>
    (match fieldType fs k, getField cur k with
     | some (om, t), some b => if om && isEmptyValue v then VEq b v else Covers t b v
     | _, _ => True) ∧ CoversVals fs cur vals
def CoversKeys : List (Str × Val) → Prop
  | [] => True
  | (_, .ptr s) :: kvs => Covers env.userScope env.userScopeBase s ∧ CoversKeys kvs
  | _ :: kvs => CoversKeys kvs
end

end Jwt.Codec
