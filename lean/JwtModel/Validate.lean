import JwtModel.Decode
import JwtModel.Subject
/-!
# Validation: one function per Go `Validate` (v2/*.go), transcribed statement by statement

Issues are reduced to what the properties observe: `blocking` and `timeCheck`.
External parsers that decide validity are parameters (`VEnv`): `url.Parse`, `net.ParseCIDR`,
`time.Parse("15:04:05")`, `time.LoadLocation`; theorems hold for every value of them.
Claims are `Val`s of the generated schemas, read through their JSON keys.
-/
namespace Jwt
open Jwt.Codec

structure Issue where
  blocking : Bool
  timeCheck : Bool
  deriving Repr, DecidableEq

def errI : List Issue := [⟨true, false⟩]
def warnI : List Issue := [⟨false, false⟩]
def timeI : List Issue := [⟨false, true⟩]
def errIf (b : Bool) : List Issue := if b then errI else []

/-- what `url.Parse` returns, as far as the library looks at it -/
structure URL where
  scheme : Str
  hostname : Str
  hasUser : Bool
  path : Str

structure VEnv where
  urlParse : Str → Option URL
  cidrOk : Str → Bool          -- `net.ParseCIDR` succeeds
  clockOk : Str → Bool         -- `time.Parse("15:04:05", s)` succeeds
  tzOk : Str → Bool            -- `time.LoadLocation(s)` succeeds

def Val.asList : Val → List Val
  | .list vs => vs
  | _ => []
def Val.asMap : Val → List (Str × Val)
  | .map m => m
  | _ => []
def Val.isNil : Val → Bool
  | .nil => true
  | _ => false
/-- dereference a pointer value (`none` for nil) -/
def Val.deref : Val → Option Val
  | .ptr v => some v
  | _ => none
def Val.strs (v : Val) : List Str := v.asList.map Val.asStr

/-! ### subjects -/

/-- `strings.Contains(v, " ")` etc. on `Str` -/
def hasSpace (s : Str) : Bool := s.any (· = ' ')

/-- `Subject.Validate` -/
def validateSubject (s : Str) : List Issue :=
  if s = [] then errI
  else
    errIf (hasSpace s) ++
    errIf (s.head? = some '.' || s.getLast? = some '.') ++
    errIf (isInfixB ['.', '.'] s)

/-- `strconv.Atoi` (base 10, optional sign, int64 range) -/
def atoi (s : Str) : Option Int :=
  let (neg, ds) := match s with | '-' :: r => (true, r) | '+' :: r => (false, r) | _ => (false, s)
  if ds.isEmpty ∨ !ds.all Json.isDigit then none
  else
    let n : Int := digitsToNat ds
    let v := if neg then -n else n
    if -(2 ^ 63 : Int) ≤ v ∧ v ≤ (2 ^ 63 : Int) - 1 then some v else none

def endsInGt (s : Str) : Bool := s = ['>'] || isSuffixB ['.', '>'] s

/-- the `$n` reference test of `RenamingSubject`: byte length ≥ 2, first byte `$`, rest parses as an int -/
def refIndex (tk : Str) : Option Int :=
  if utf8Len tk < 2 then none
  else match tk with
    | '$' :: rest => atoi rest
    | _ => none

/-- the token loop of `RenamingSubject.Validate`: (issues, refCnt) -/
def renamingLoop (fromCnt : Int) : List Str → List Issue × Int
  | [] => ([], 0)
  | tk :: rest =>
    let (is, n) := renamingLoop fromCnt rest
    let star : Int := if tk = ['*'] then 1 else 0
    match refIndex tk with
    | some idx => if idx > fromCnt then (errI ++ is, star + n) else (is, star + 1 + n)
    | none => (is, star + n)

/-- `RenamingSubject.Validate(from, vr)` -/
def validateRenaming (s frm : Str) : List Issue :=
  let fromCnt : Int := countTokenWildcards frm
  let (loopIssues, refCnt) := renamingLoop fromCnt (splitOn '.' s)
  validateSubject s ++
  errIf (frm = []) ++
  errIf (hasSpace s) ++
  errIf (endsInGt s != endsInGt frm) ++
  loopIssues ++
  errIf (refCnt != fromCnt)

/-- `RenamingSubject.ToSubject` -/
def renamingToSubject (s : Str) : Str :=
  if !s.any (· = '$') then s
  else join '.' ((splitOn '.' s).map fun tk => if (refIndex tk).isSome then ['*'] else tk)

/-! ### info, exports -/

/-- `Info.Validate` on a struct carrying `description` and `info_url` -/
def validateInfo (env : VEnv) (v : Val) : List Issue :=
  let desc := (v.field "description").asStr
  let url := (v.field "info_url").asStr
  errIf (utf8Len desc > Gen.V2.cMaxInfoLength.toNat) ++
  (if url = [] then [] else
    errIf (utf8Len url > Gen.V2.cMaxInfoLength.toNat) ++
    errIf (match env.urlParse url with
           | some u => u.hostname = [] || u.scheme = []
           | none => true))

def isService (v : Val) (key : String := "type") : Bool := (v.field key).asInt == 2
def isStream (v : Val) (key : String := "type") : Bool := (v.field key).asInt == 1

/-- `ServiceLatency.Validate` -/
def validateLatency (l : Val) : List Issue :=
  let s := (l.field "sampling").asInt
  let results := (l.field "results").asStr
  errIf (s != 0 && (s < 1 || s > 100)) ++ validateSubject results ++ errIf (hasWildCards results)

/-- the `AccountTokenPosition` block of `Export.Validate` -/
def validateTokenPos (subject : Str) (pos : Int) : List Issue :=
  if pos > 0 then
    if !hasWildCards subject then errI
    else
      let toks := splitOn '.' subject
      if pos > toks.length then errI
      else errIf (toks.getD (pos.toNat - 1) [] != ['*'])
  else []

/-- the latency block of `Export.Validate` -/
def validateExportLatency (svc : Bool) (lat : Val) : List Issue :=
  match lat.deref with
  | some l => errIf (!svc) ++ validateLatency l
  | none => []

/-- the stream-only block of `Export.Validate` -/
def validateExportStream (strm : Bool) (rt : Str) (allowTrace : Bool) : List Issue :=
  if strm then errIf (rt ≠ []) ++ errIf allowTrace else []

/-- `(*Export).Validate` (the argument is the pointer value) -/
def validateExport (env : VEnv) (ev : Val) : List Issue :=
  match ev.deref with
  | none => errI
  | some e =>
    let svc := isService e
    let strm := isStream e
    let rt := (e.field "response_type").asStr
    let single := svc && (rt = Gen.V2.cResponseTypeSingleton || rt = [])
    let chunked := svc && rt = Gen.V2.cResponseTypeChunked
    let streamed := svc && rt = Gen.V2.cResponseTypeStream
    let thr := (e.field "response_threshold").asInt
    errIf (!svc && !strm) ++
    errIf (svc && !single && !chunked && !streamed) ++
    validateExportStream strm rt (e.field "allow_trace").asBool ++
    validateExportLatency svc (e.field "service_latency") ++
    errIf (thr < 0) ++
    errIf (thr > 0 && !svc) ++
    validateSubject (e.field "subject").asStr ++
    validateTokenPos (e.field "subject").asStr (e.field "account_token_position").asInt ++
    validateInfo env e

/-- does some *other* position hold a subject that contains the one at position `i`? (the nested loop of
`isContainedIn(kind, subjects, vr)` in exports.go, seen from the contained element) -/
def containedSomewhere (subjects : List Str) : List Str :=
  let idx := (List.range subjects.length).zip subjects
  -- the map `m` is keyed by the *containing* subject `s`
  (idx.filterMap fun (j, s) =>
    if idx.any (fun (i, ns) => i != j && isContainedIn ns s) then some s else none).eraseDups

/-- `(*Exports).Validate` -/
def validateExports (env : VEnv) (exports : Val) : List Issue :=
  let es := exports.asList
  let perEntry := es.flatMap (validateExport env)
  let live := es.filterMap Val.deref
  let svcSubjects := (live.filter (isService ·)).map fun e => (e.field "subject").asStr
  let strSubjects := (live.filter (fun e => !isService e)).map fun e => (e.field "subject").asStr
  perEntry ++
  (containedSomewhere svcSubjects).flatMap (fun _ => errI) ++
  (containedSomewhere strSubjects).flatMap (fun _ => errI)

/-! ### activation, imports -/

def validAcct (s : Str) : Bool := NKey.isValidPublic .account s
def validUser (s : Str) : Bool := NKey.isValidPublic .user s
def validOp (s : Str) : Bool := NKey.isValidPublic .operator s
def validServer (s : Str) : Bool := NKey.isValidPublic .server s
def validCurve (s : Str) : Bool := NKey.isValidPublic .curve s

/-- `ClaimsData.Validate` -/
def validateClaimsData (now : Int) (c : Val) : List Issue :=
  let exp := (c.field "exp").asInt
  let nbf := (c.field "nbf").asInt
  (if exp > 0 ∧ now > exp then timeI else []) ++ (if nbf > 0 ∧ nbf > now then timeI else [])

/-- `Activation.Validate` + the issuer-account test of `validateWithTimeChecks` -/
def validateActivationBody (c : Val) : List Issue :=
  let n := c.field "nats"
  errIf (!isService n "kind" && !isStream n "kind") ++
  validateSubject (n.field "subject").asStr ++
  errIf ((n.field "issuer_account").asStr ≠ [] && !validAcct (n.field "issuer_account").asStr)

/-- `ActivationClaims.validateWithTimeChecks` -/
def validateActivation (now : Int) (timeChecks : Bool) (c : Val) : List Issue :=
  (if timeChecks then validateClaimsData now c else []) ++ validateActivationBody c

/-- the activation-token block of `Import.Validate` (lines 93–121 of imports.go) -/
def validateImportToken (cr : Crypto) (acct : Str) (i : Val) : List Issue :=
  let token := (i.field "token").asStr
  if token = [] then [] else
    match decodeTyped .activation cr token with
    | .error _ => errI
    | .ok act =>
      let a := act.val
      let n := a.field "nats"
      let to := (i.field "to").asStr
      let subj := if isService i && to ≠ [] then to else (i.field "subject").asStr
      errIf (!((a.field "iss").asStr = (i.field "account").asStr || (n.field "issuer_account").asStr = (i.field "account").asStr)) ++
      errIf ((a.field "sub").asStr ≠ acct) ++
      errIf ((n.field "kind").asInt != (i.field "type").asInt) ++
      validateActivationBody a ++
      errIf (!isContainedIn subj (n.field "subject").asStr)

/-- the `LocalSubject` block of `Import.Validate` -/
def validateImportLocal (loc subject to : Str) : List Issue :=
  if loc ≠ [] then validateRenaming loc subject ++ errIf (to ≠ []) else []

/-- `(*Import).Validate(actPubKey, vr)` -/
def validateImport (cr : Crypto) (acct : Str) (iv : Val) : List Issue :=
  match iv.deref with
  | none => errI
  | some i =>
    let svc := isService i
    let strm := isStream i
    let subject := (i.field "subject").asStr
    let account := (i.field "account").asStr
    let to := (i.field "to").asStr
    let loc := (i.field "local_subject").asStr
    errIf (!svc && !strm) ++
    errIf (svc && (i.field "allow_trace").asBool) ++
    errIf (account = []) ++
    (if to ≠ [] then warnI else []) ++
    validateSubject subject ++
    validateImportLocal loc subject to ++
    errIf ((i.field "share").asBool && !svc) ++
    validateImportToken cr acct i

/-- the effective local subject of a service import: `To`, else `LocalSubject.ToSubject()`, else `Subject` -/
def importLocalSubject (i : Val) : Str :=
  let to := (i.field "to").asStr
  if to ≠ [] then to
  else
    let l := renamingToSubject (i.field "local_subject").asStr
    if l ≠ [] then l else (i.field "subject").asStr

/-- the `toSet` loop of `(*Imports).Validate`: issues against the earlier service imports -/
def importsOverlap : List Str → List Val → List Issue
  | _, [] => []
  | seen, iv :: rest =>
    match iv.deref with
    | none => importsOverlap seen rest
    | some i =>
      if isService i then
        let sub := importLocalSubject i
        (seen.flatMap fun k => errIf (isContainedIn sub k || isContainedIn k sub)) ++
        errIf (seen.contains sub) ++
        importsOverlap (if seen.contains sub then seen else seen ++ [sub]) rest
      else importsOverlap seen rest

/-- `(*Imports).Validate` -/
def validateImports (cr : Crypto) (acct : Str) (imports : Val) : List Issue :=
  let is := imports.asList
  importsOverlap [] is ++ is.flatMap (validateImport cr acct)

/-! ### limits, permissions, mappings, external authorization -/

def jsFlatKeys : List String :=
  ["mem_storage", "disk_storage", "streams", "consumer", "max_ack_pending", "mem_max_stream_bytes", "disk_max_stream_bytes"]

/-- `o.JetStreamLimits != JetStreamLimits{}` -/
def jsFlatNonZero (lim : Val) : Bool :=
  jsFlatKeys.any (fun k => (lim.field k).asInt != 0) || (lim.field "max_bytes_required").asBool

/-- `OperatorLimits.Validate` -/
def validateOperatorLimits (lim : Val) : List Issue :=
  let tiers := (lim.field "tiered_limits").asMap
  if tiers.isEmpty then []
  else errIf (jsFlatNonZero lim) ++ errIf (tiers.any (·.1 = []))

/-- `OperatorLimits.IsEmpty` -/
def limitsIsEmpty (lim : Val) : Bool :=
  ["subs", "data", "payload", "imports", "exports", "conn", "leaf"].all (fun k => (lim.field k).asInt == 0) &&
  !(lim.field "wildcards").asBool && !(lim.field "disallow_bearer").asBool &&
  !jsFlatNonZero lim && (lim.field "tiered_limits").asMap.isEmpty

/-- `checkPermission` -/
def checkPermission (subj : Str) (permitQueue : Bool) : List Issue :=
  match splitOn ' ' subj with
  | [a] => validateSubject a
  | [a, b] => validateSubject a ++ validateSubject b ++ errIf (!permitQueue)
  | _ => errI

/-- `Permission.Validate` -/
def validatePermission (p : Val) (permitQueue : Bool) : List Issue :=
  ((p.field "allow").strs ++ (p.field "deny").strs).flatMap (checkPermission · permitQueue)

/-- `Permissions.Validate` on a struct carrying `pub`, `sub` (and `resp`, which has no rules) -/
def validatePermissions (v : Val) : List Issue :=
  validatePermission (v.field "sub") true ++ validatePermission (v.field "pub") false

/-- `WeightedMapping.GetWeight` as an integer -/
def effWeight (wm : Val) : Int := let w := (wm.field "weight").asInt; if w = 0 then 100 else w

/-- `Mapping.Validate` (weights summed over the integers: repair D3) -/
def validateMappings (m : Val) : List Issue :=
  m.asMap.flatMap fun (frm, wms) =>
    validateSubject frm ++
    wms.asList.flatMap (fun wm => validateSubject (wm.field "subject").asStr) ++
    errIf ((wms.asList.map effWeight).sum > 100)

/-- `ExternalAuthorization.Validate` -/
def validateExtAuth (a : Val) : List Issue :=
  let users := (a.field "auth_users").strs
  let allowed := (a.field "allowed_accounts").strs
  let xkey := (a.field "xkey").asStr
  errIf (!allowed.isEmpty && users.isEmpty) ++
  users.flatMap (fun u => errIf (!validUser u)) ++
  allowed.flatMap (fun acc =>
    if acc = Gen.V2.cAnyAccount then errIf (allowed.length > 1)
    else errIf (!validAcct acc)) ++
  errIf (xkey ≠ [] && !validCurve xkey)

/-- the trace block of `Account.Validate` -/
def validateTrace (t : Val) : List Issue :=
  match t.deref with
  | none => []
  | some tr =>
    let dest := (tr.field "dest").asStr
    let s := (tr.field "sampling").asInt
    errIf (!(validateSubject dest).isEmpty) ++ errIf (hasWildCards dest) ++ errIf (s < 0 || s > 100)

/-- one entry of `SigningKeys.Validate`: a plain key is judged by the map key, a scope by its own key -/
def validateSigningKey (k : Str) (v : Val) : List Issue :=
  match v with
  | .nil => errIf (!validAcct k)
  | .ptr s => errIf (!validAcct (s.field "key").asStr)
  | s => errIf (!validAcct (s.field "key").asStr)

/-- `SigningKeys.Validate` -/
def validateSigningKeys (sk : Val) : List Issue :=
  sk.asMap.flatMap fun e => validateSigningKey e.1 e.2

/-- the wildcard-export loop of `Account.Validate` -/
def wildcardExportIssues (exports : List Val) : List Issue :=
  exports.flatMap fun ev =>
    match ev.deref with
    | some e => errIf (hasWildCards (e.field "subject").asStr)
    | none => []

/-- the import / export limit block of `Account.Validate` -/
def validateAccountLimits (n : Val) : List Issue :=
  let lim := n.field "limits"
  let nImports : Int := n.field "imports" |>.asList.length
  let exports := (n.field "exports").asList
  let nExports : Int := exports.length
  let li := (lim.field "imports").asInt
  let le := (lim.field "exports").asInt
  errIf (!limitsIsEmpty lim && li ≥ 0 && nImports > li) ++
  errIf (li != Gen.V2.cNoLimit && nImports > li) ++
  (if le != Gen.V2.cNoLimit then
    errIf (nExports > le) ++
    (if !(lim.field "wildcards").asBool then wildcardExportIssues exports else [])
   else [])

/-- `Account.Validate` -/
def validateAccountBody (env : VEnv) (cr : Crypto) (c : Val) : List Issue :=
  let n := c.field "nats"
  validateImports cr (c.field "sub").asStr (n.field "imports") ++
  validateExports env (n.field "exports") ++
  validateOperatorLimits (n.field "limits") ++
  validatePermissions (n.field "default_permissions") ++
  validateMappings (n.field "mappings") ++
  validateExtAuth (n.field "authorization") ++
  validateTrace (n.field "trace") ++
  validateAccountLimits n ++
  validateSigningKeys (n.field "signing_keys") ++
  validateInfo env n

/-- `AccountClaims.Validate` -/
def validateAccount (env : VEnv) (cr : Crypto) (now : Int) (c : Val) : List Issue :=
  validateClaimsData now c ++ validateAccountBody env cr c ++
  (if validAcct (c.field "iss").asStr && !limitsIsEmpty ((c.field "nats").field "limits") then warnI else [])

/-! ### user, operator, authorization -/

/-- `TimeRange.Validate` -/
def validateTimeRange (env : VEnv) (tr : Val) : List Issue :=
  let s := (tr.field "start").asStr
  let e := (tr.field "end").asStr
  errIf (s = [] || !env.clockOk s) ++ errIf (e = [] || !env.clockOk e)

/-- `Limits.Validate` on a struct carrying `src`, `times`, `times_location` -/
def validateUserLimits (env : VEnv) (n : Val) : List Issue :=
  (n.field "src").strs.flatMap (fun c => errIf (!env.cidrOk c)) ++
  (n.field "times").asList.flatMap (validateTimeRange env) ++
  errIf ((n.field "times_location").asStr ≠ [] && !env.tzOk (n.field "times_location").asStr)

/-- `UserClaims.Validate` -/
def validateUser (env : VEnv) (now : Int) (c : Val) : List Issue :=
  let n := c.field "nats"
  validateClaimsData now c ++ validatePermissions n ++ validateUserLimits env n ++
  errIf ((n.field "issuer_account").asStr ≠ [] && !validAcct (n.field "issuer_account").asStr)

/-- `ValidateOperatorServiceURL(v) != nil` for a non-empty `v` -/
def serviceUrlBad (env : VEnv) (v : Str) : Bool :=
  match env.urlParse v with
  | none => true
  | some u =>
    u.hasUser || u.path ≠ [] ||
    !(let s := goLower u.scheme; s = "nats".toList || s = "tls".toList || s = "ws".toList || s = "wss".toList)

/-- `ParseServerVersion(version)` returns an error -/
def serverVersionBad (v : Str) : Bool :=
  if v = [] then false
  else match splitOn '.' v with
    | [a, b, c] =>
      match atoi a, atoi b, atoi c with
      | some x, some y, some z => x < 0 || y < 0 || z < 0
      | _, _, _ => true
    | _ => true

/-- `OperatorClaims.Validate` -/
def validateOperator (env : VEnv) (now : Int) (c : Val) : List Issue :=
  let n := c.field "nats"
  let asu := (n.field "account_server_url").asStr
  validateClaimsData now c ++
  errIf (asu ≠ [] && (match env.urlParse asu with | some u => u.scheme = [] | none => true)) ++
  (n.field "operator_service_urls").strs.flatMap (fun v => errIf (v ≠ [] && serviceUrlBad env v)) ++
  (n.field "signing_keys").strs.flatMap (fun k => errIf (!validOp k)) ++
  errIf ((n.field "system_account").asStr ≠ [] && !validAcct (n.field "system_account").asStr) ++
  errIf (serverVersionBad (n.field "assert_server_version").asStr)

/-- `AuthorizationRequestClaims.Validate` -/
def validateAuthRequest (now : Int) (c : Val) : List Issue :=
  let nk := ((c.field "nats").field "user_nkey").asStr
  errIf (nk = [] || !validUser nk) ++ validateClaimsData now c

/-- `AuthorizationResponseClaims.Validate` -/
def validateAuthResponse (now : Int) (c : Val) : List Issue :=
  let n := c.field "nats"
  let e := (n.field "error").asStr
  let j := (n.field "jwt").asStr
  errIf (!validUser (c.field "sub").asStr) ++
  errIf (!validServer (c.field "aud").asStr) ++
  errIf (e = [] && j = []) ++
  errIf (e ≠ [] && j ≠ []) ++
  errIf ((n.field "issuer_account").asStr ≠ [] && !validAcct (n.field "issuer_account").asStr) ++
  validateClaimsData now c

/-- `Claims.Validate` by dynamic kind -/
def validate (env : VEnv) (cr : Crypto) (now : Int) (c : Claims) : List Issue :=
  match c.kind with
  | .operator => validateOperator env now c.val
  | .account => validateAccount env cr now c.val
  | .user => validateUser env now c.val
  | .activation => validateActivation now true c.val
  | .authRequest => validateAuthRequest now c.val
  | .authResponse => validateAuthResponse now c.val
  | .generic => validateClaimsData now c.val

/-- `ValidationResults.IsBlocking(includeTimeChecks)` -/
def isBlocking (r : List Issue) (includeTimeChecks : Bool) : Bool :=
  r.any fun i => i.blocking || (includeTimeChecks && i.timeCheck)

end Jwt
