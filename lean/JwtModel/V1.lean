import JwtModel.Encode
/-!
# The bundled version-1 library (v2/v1compat): `Decode`, the typed decoders, `Encode`

Schemas and role tables come from `Gen.V1` (regenerated from /repo/v2/v1compat). Version-1 tokens are signed
over the payload segment only; the header must be `jwt` / `ed25519` (case-insensitively); the typed decoders
unmarshal into their own struct type and do not look at the declared kind.
-/
namespace Jwt.V1
open Jwt Jwt.Codec

inductive Kind where
  | operator | account | user | activation | cluster | server | generic
  deriving DecidableEq, Repr

def schemaOf : Kind → Ty
  | .operator => Gen.V1.OperatorClaims
  | .account => Gen.V1.AccountClaims
  | .user => Gen.V1.UserClaims
  | .activation => Gen.V1.ActivationClaims
  | .cluster => Gen.V1.ClusterClaims
  | .server => Gen.V1.ServerClaims
  | .generic => Gen.V1.GenericClaims

def goTypeName : Kind → String
  | .operator => "OperatorClaims" | .account => "AccountClaims" | .user => "UserClaims"
  | .activation => "ActivationClaims" | .cluster => "ClusterClaims" | .server => "ServerClaims"
  | .generic => "GenericClaims"

def typeStr : Kind → Str
  | .operator => Gen.V1.cOperatorClaim | .account => Gen.V1.cAccountClaim | .user => Gen.V1.cUserClaim
  | .activation => Gen.V1.cActivationClaim | .cluster => Gen.V1.cClusterClaim | .server => Gen.V1.cServerClaim
  | .generic => []

def expectedPrefixes (k : Kind) : Option (List NKey.Role) :=
  match Gen.V1.expectedPrefixes.find? (fun e => e.1 == goTypeName k) with
  | some (_, r) => r
  | none => some []

/-- v1 `Header.Valid`: type `jwt` and exactly the legacy algorithm, both lower-cased; the version-2 algorithm
name is refused ("more recent jwt version") -/
def headerValid (h : Header) : Bool :=
  decide (Gen.V1.cTokenTypeJwt = goLower h.typ) && decide (goLower h.alg = Gen.V1.cAlgorithmNkey)

def parseHeaders (seg : Str) : DRes Header := do
  let text ← segmentText seg
  let j ← parseJsonText text
  let v ← decodeJson Gen.V1.Header (zero Gen.V1.Header) j
  let h : Header := { typ := (v.field "typ").asStr, alg := (v.field "alg").asStr }
  if headerValid h then pure h else .error .err

/-- v1 `Decode(token, target)` with a target of kind `k` -/
def decode (k : Kind) (cr : Crypto) (token : Str) : DRes Val :=
  match splitOn '.' token with
  | [h, p, s] => do
    let _ ← parseHeaders h
    let text ← segmentText p
    let j ← parseJsonText text
    let v ← decodeJson (schemaOf k) (zero (schemaOf k)) j
    let sig ← match B64.decodeString s with | some b => pure b | none => .error .err
    if !verifySig cr (v.field "iss").asStr p sig then .error .err
    else if !roleGate Gen.V1.decodeArms (expectedPrefixes k) (v.field "iss").asStr then .error .err
    else pure v
  | _ => .error .err

def subjectRole : Kind → Option NKey.Role
  | .operator => some .operator | .account => some .account | .user => some .user
  | .activation => some .account | .cluster => some .cluster | .server => some .server | .generic => none

def encodeHeader : Val :=
  ((zero Gen.V1.Header).set "typ" (.str Gen.V1.cTokenTypeJwt)).set "alg" (.str Gen.V1.cAlgorithmNkey)

def v1ClaimsDataKeys : List String := ["aud", "exp", "jti", "iat", "iss", "name", "nbf", "sub", "tags", "type"]

/-- v1 `Encode`: (claims object left behind, header JSON, payload JSON). The token id is the hash of the standard
fields *including the previous id* (v1 does not clear it). -/
def encodeParts (env : EncEnv) (k : Kind) (v : Val) : DRes (Val × Str × Str) :=
  let sub := (v.field "sub").asStr
  let roleOk := match subjectRole k with | some r => NKey.isValidPublic r sub | none => true
  if !roleOk then .error .err
  else
    let url := ((v.field "nats").field "account_server_url").asStr
    if k = .operator ∧ url ≠ [] ∧ !env.urlHasScheme url then .error .err
    else
      let v0 := if k = .account then
          setNats v (fun n => (n.set "exports" (sortEntries (n.field "exports"))).set "imports" (sortEntries (n.field "imports")))
        else v
      let v0 := if k = .generic then v0 else v0.set "type" (.str (typeStr k))
      if sub = [] then .error .err
      else do
        let hText ← liftRes (encodeText codecEnv Gen.V1.Header encodeHeader)
        if !roleGate Gen.V1.encodeArms (expectedPrefixes k) env.pub then .error .err
        else
          let v1 := (v0.set "iss" (.str env.pub)).set "iat" (.int env.now)
          let cd := (zero Gen.V1.ClaimsData).copyFrom v1 v1ClaimsDataKeys
          let pre ← liftRes (encodeText codecEnv Gen.V1.ClaimsData cd)
          let v2 := v1.set "jti" (.str (env.tokenId pre))
          let pText ← liftRes (encodeText codecEnv (schemaOf k) v2)
          pure (v2, hText, pText)

end Jwt.V1
