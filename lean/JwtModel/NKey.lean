import JwtModel.Text
/-!
# nkeys public-key strings (modelled, not verified): unpadded base32, CRC-16/XMODEM, prefix byte

`isValidPublic r s` = `nkeys.IsValidPublic<Role>Key(s)`; `rawKey s` = the key bytes `nkeys.FromPublicKey(s)`
would hand to Ed25519 (any length — the library checks it is 32 since repair D11).
Bytes are `Nat`s below 256.
-/
namespace Jwt.NKey

def b32Val (c : Char) : Option Nat :=
  if 'A' ≤ c ∧ c ≤ 'Z' then some (c.toNat - 65)
  else if '2' ≤ c ∧ c ≤ '7' then some (c.toNat - 50 + 26)
  else none

/-- unpadded std base32: accumulate 5 bits per char, emit a byte whenever ≥ 8 bits are buffered -/
def b32Go : List Char → Nat → Nat → List Nat → Option (List Nat)
  | [], _, _, out => some out.reverse
  | c :: cs, acc, nbits, out =>
    match b32Val c with
    | none => none
    | some v =>
      let acc := acc * 32 + v
      let nbits := nbits + 5
      if nbits ≥ 8 then
        let nb := nbits - 8
        b32Go cs (acc % 2 ^ nb) nb ((acc / 2 ^ nb) :: out)
      else b32Go cs acc nbits out

def b32Decode (s : List Char) : Option (List Nat) :=
  let s := s.filter (fun c => c ≠ '\r' ∧ c ≠ '\n')      -- Go's decoder skips newlines
  if s.length % 8 ∈ [0, 2, 4, 5, 7] then b32Go s 0 0 [] else none

/-- CRC-16/XMODEM: poly 0x1021, init 0, MSB first -/
def crcByte (crc b : Nat) : Nat :=
  let x := (crc ^^^ (b * 256)) % 65536
  (List.range 8).foldl (fun x _ => if x ≥ 32768 then ((x * 2) ^^^ 0x1021) % 65536 else (x * 2) % 65536) x
def crc16 (bs : List Nat) : Nat := bs.foldl crcByte 0

inductive Role | operator | server | cluster | account | user | curve
  | unknown   -- placeholder emitted by the extractor for a prefix expression it cannot classify
  deriving DecidableEq, Repr

def roleOfPrefix (p : Nat) : Option Role :=
  if p = 14 * 8 then some .operator else if p = 13 * 8 then some .server else if p = 2 * 8 then some .cluster
  else if p = 0 then some .account else if p = 20 * 8 then some .user else if p = 23 * 8 then some .curve else none

/-- nkeys `decode`: base32, at least 4 bytes, checksum over everything but the last two (little-endian) -/
def decodeKey (s : List Char) : Option (List Nat) :=
  match b32Decode s with
  | none => none
  | some raw =>
    if raw.length < 4 then none else
    let body := raw.take (raw.length - 2)
    let lo := raw.getD (raw.length - 2) 0
    let hi := raw.getD (raw.length - 1) 0
    if crc16 body = lo + 256 * hi then some body else none

/-- `nkeys.IsValidPublic<Role>Key`: prefix byte masked with 248 equals the role's prefix -/
def isValidPublic (r : Role) (s : List Char) : Bool :=
  match decodeKey s with
  | some (p :: _) => roleOfPrefix (p / 8 * 8) = some r
  | _ => false

/-- `nkeys.FromPublicKey`: any public prefix (exact byte), payload of ANY length -/
def rawKey (s : List Char) : Option (List Nat) :=
  match decodeKey s with
  | some (p :: k) => if (roleOfPrefix p).isSome then some k else none
  | _ => none


def roleOf (s : Str) : Option Role :=
  match decodeKey s with
  | some (p :: _) => roleOfPrefix (p / 8 * 8)
  | _ => none

/-- base32 (unpadded, std alphabet) encoding, used for token ids and hash ids -/
def b32Char (n : Nat) : Char := if n < 26 then Char.ofNat (65 + n) else Char.ofNat (50 + n - 26)

def b32EncGo : List Nat → Nat → Nat → List Char → List Char
  | [], acc, nbits, out => if nbits = 0 then out.reverse else (b32Char (acc * 2 ^ (5 - nbits) % 32) :: out).reverse
  | b :: bs, acc, nbits, out =>
    let acc := acc * 256 + b
    let nbits := nbits + 8
    -- emit as many 5-bit groups as available
    if nbits ≥ 10 then
      let c1 := acc / 2 ^ (nbits - 5) % 32
      let c2 := acc / 2 ^ (nbits - 10) % 32
      b32EncGo bs (acc % 2 ^ (nbits - 10)) (nbits - 10) (b32Char c2 :: b32Char c1 :: out)
    else
      let c1 := acc / 2 ^ (nbits - 5) % 32
      b32EncGo bs (acc % 2 ^ (nbits - 5)) (nbits - 5) (b32Char c1 :: out)

def b32Encode (bs : List Nat) : Str := b32EncGo bs 0 0 []

end Jwt.NKey
