import JwtModel.Text
/-!
# UTF-8 (bytes as `Nat` < 256)

`encode` is total on `Str`; `decode` is the strict decoder (`utf8.Valid`): overlong forms, surrogates and
values above U+10FFFF are refused. Go strings that are not valid UTF-8 are outside the model
(`unsupported` at the driver boundary), as every property's quantifier says.
-/
namespace Jwt.Utf8

def encodeChar (c : Char) : List Nat :=
  let n := c.toNat
  if n < 0x80 then [n]
  else if n < 0x800 then [0xC0 + n / 64, 0x80 + n % 64]
  else if n < 0x10000 then [0xE0 + n / 4096, 0x80 + n / 64 % 64, 0x80 + n % 64]
  else [0xF0 + n / 262144, 0x80 + n / 4096 % 64, 0x80 + n / 64 % 64, 0x80 + n % 64]

def encode (s : Str) : List Nat := s.flatMap encodeChar

def isCont (b : Nat) : Bool := 0x80 ≤ b && b < 0xC0

def decodeAux : Nat → List Nat → Str → Option Str
  | 0, _, _ => none
  | _, [], acc => some acc.reverse
  | f+1, b :: r, acc =>
    if b < 0x80 then decodeAux f r (Char.ofNat b :: acc)
    else if 0xC2 ≤ b ∧ b < 0xE0 then
      match r with
      | b1 :: r' => if isCont b1 then decodeAux f r' (Char.ofNat ((b - 0xC0) * 64 + (b1 - 0x80)) :: acc) else none
      | _ => none
    else if 0xE0 ≤ b ∧ b < 0xF0 then
      match r with
      | b1 :: b2 :: r' =>
        let n := (b - 0xE0) * 4096 + (b1 - 0x80) * 64 + (b2 - 0x80)
        if isCont b1 ∧ isCont b2 ∧ 0x800 ≤ n ∧ ¬ (0xD800 ≤ n ∧ n < 0xE000) then decodeAux f r' (Char.ofNat n :: acc) else none
      | _ => none
    else if 0xF0 ≤ b ∧ b < 0xF5 then
      match r with
      | b1 :: b2 :: b3 :: r' =>
        let n := (b - 0xF0) * 262144 + (b1 - 0x80) * 4096 + (b2 - 0x80) * 64 + (b3 - 0x80)
        if isCont b1 ∧ isCont b2 ∧ isCont b3 ∧ 0x10000 ≤ n ∧ n < 0x110000 then decodeAux f r' (Char.ofNat n :: acc) else none
      | _ => none
    else none

def decode (bs : List Nat) : Option Str := decodeAux (bs.length + 1) bs []

end Jwt.Utf8
