import JwtModel.Text
/-!
# `base64.RawURLEncoding` (modelled, not verified)

Go's decoder skips `\r` and `\n`, refuses `=` padding and a dangling single character, and — being
non-strict — ignores the unused trailing bits of a final partial group.
-/
namespace Jwt.B64

def alphabet : List Char :=
  ['A', 'B', 'C', 'D', 'E', 'F', 'G', 'H', 'I', 'J', 'K', 'L', 'M', 'N', 'O', 'P', 'Q', 'R', 'S', 'T', 'U', 'V', 'W', 'X', 'Y', 'Z', 'a', 'b', 'c', 'd', 'e', 'f', 'g', 'h', 'i', 'j', 'k', 'l', 'm', 'n', 'o', 'p', 'q', 'r', 's', 't', 'u', 'v', 'w', 'x', 'y', 'z', '0', '1', '2', '3', '4', '5', '6', '7', '8', '9', '-', '_']

def encChar (n : Nat) : Char := alphabet.getD n 'A'

def decChar (c : Char) : Option Nat :=
  let i := alphabet.idxOf c
  if i < 64 then some i else none

def encode : List Nat → List Char
  | a :: b :: c :: r =>
      encChar (a / 4) :: encChar (a % 4 * 16 + b / 16) :: encChar (b % 16 * 4 + c / 64) :: encChar (c % 64) :: encode r
  | [a, b] => [encChar (a / 4), encChar (a % 4 * 16 + b / 16), encChar (b % 16 * 4)]
  | [a] => [encChar (a / 4), encChar (a % 4 * 16)]
  | [] => []

/-- Go's non-strict decoder: trailing bits of a final partial group are ignored -/
def decode : List Char → Option (List Nat)
  | w :: x :: y :: z :: r =>
      match decChar w, decChar x, decChar y, decChar z, decode r with
      | some p, some q, some s, some t, some rest =>
          some ((p * 4 + q / 16) :: (q % 16 * 16 + s / 4) :: (s % 4 * 64 + t) :: rest)
      | _, _, _, _, _ => none
  | [w, x, y] =>
      match decChar w, decChar x, decChar y with
      | some p, some q, some s => some [p * 4 + q / 16, q % 16 * 16 + s / 4]
      | _, _, _ => none
  | [w, x] =>
      match decChar w, decChar x with
      | some p, some q => some [p * 4 + q / 16]
      | _, _ => none
  | [_] => none
  | [] => some []


/-- `base64.RawURLEncoding.DecodeString`: newlines are skipped first -/
def decodeString (s : Str) : Option (List Nat) := decode (s.filter (fun c => c ≠ '\r' ∧ c ≠ '\n'))

end Jwt.B64
