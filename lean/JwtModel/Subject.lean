import JwtModel.Text
/-!
# Subjects: `Subject.IsContainedIn`, `Subject.HasWildCards`, `countTokenWildcards` (v2/types.go)

`loopGo`/`isContainedInGo` transcribe the Go function as written (length pre-checks, index loop);
the token type is generic so the proofs do not depend on what a token is.
-/
namespace Jwt
section
variable {α : Type} [DecidableEq α]

/-- the `for ind, tok := range otherArray` loop, reading `myArray[ind]` -/
def loopGo (star gt : α) : List α → List α → Bool
  | [], _ => true
  | t :: ts, m :: ms =>
      if ts = [] ∧ t = gt then true
      else if t ≠ m ∧ (t ≠ star ∨ m = gt) then false
      else loopGo star gt ts ms
  | _ :: _, [] => false

/-- `Subject.IsContainedIn` after the two `strings.Split` calls -/
def isContainedInGo (star gt : α) (my other : List α) : Bool :=
  if my.length > other.length ∧ other.getLast? ≠ some gt then false
  else if my.length < other.length then false
  else loopGo star gt other my
end

def tokStar : Str := ['*']
def tokGt : Str := ['>']

/-- `Subject(s).IsContainedIn(Subject(other))` -/
def isContainedIn (s other : Str) : Bool :=
  isContainedInGo tokStar tokGt (splitOn '.' s) (splitOn '.' other)

/-- `Subject.HasWildCards`:
`HasSuffix(v, ".>") || Contains(v, ".*.") || HasSuffix(v, ".*") || HasPrefix(v, "*.") || v == "*" || v == ">"` -/
def hasWildCards (s : Str) : Bool :=
  isSuffixB ['.', '>'] s || isInfixB ['.', '*', '.'] s || isSuffixB ['.', '*'] s ||
  isPrefixB ['*', '.'] s || s = ['*'] || s = ['>']

/-- `Subject.countTokenWildcards` -/
def countTokenWildcards (s : Str) : Nat :=
  if s = ['*'] then 1 else ((splitOn '.' s).filter (· = tokStar)).length

end Jwt
