import JwtModel.Text
/-!
# Signer attribution: `OperatorClaims.DidSign`, `AccountClaims.DidSign` (transcribed branch by branch)
-/
namespace Jwt

/-- dynamic type of a `Claims` value -/
inductive Kind where
  | operator | account | user | activation | authRequest | authResponse | generic
  deriving DecidableEq, Repr

/-- what `DidSign` reads of the claim it is asked about -/
structure ClaimView where
  kind : Kind
  issuer : Str
  subject : Str
  /-- `IssuerAccount` of user / activation claims ("" for other kinds) -/
  issuerAccount : Str

/-- `StringList.Contains` / `SigningKeys.Contains` (map lookup; plain and scoped keys alike) -/
def keyListed (keys : List Str) (k : Str) : Bool := keys.any (· = k)

/-- `(*OperatorClaims).DidSign` -/
def operatorDidSign (opSubject : Str) (strict : Bool) (signingKeys : List Str) (c : Option ClaimView) : Bool :=
  match c with
  | none => false
  | some c =>
    if c.issuer = opSubject then
      if !strict then true else decide (c.subject = opSubject)
    else keyListed signingKeys c.issuer

/-- `(*AccountClaims).DidSign` -/
def accountDidSign (acctSubject : Str) (signingKeys : List Str) (c : Option ClaimView) : Bool :=
  match c with
  | none => false
  | some c =>
    if c.issuer = acctSubject then true
    else if c.kind = .user ∧ c.issuerAccount = acctSubject then keyListed signingKeys c.issuer
    else if c.kind = .activation ∧ c.issuerAccount = acctSubject then keyListed signingKeys c.issuer
    else false

end Jwt
