import JwtModel.Text
/-!
# Line protocol helpers for the correspondence driver

One operation per line: `OP<TAB>arg<TAB>arg…`. String arguments are hex-encoded UTF-8 (so that any
text, including tabs/newlines/non-ASCII, survives), integers are decimal. One output line per input line.
-/
namespace Jwt.Wire

def hexVal (c : Char) : Option Nat :=
  if '0' ≤ c ∧ c ≤ '9' then some (c.toNat - '0'.toNat)
  else if 'a' ≤ c ∧ c ≤ 'f' then some (c.toNat - 'a'.toNat + 10)
  else if 'A' ≤ c ∧ c ≤ 'F' then some (c.toNat - 'A'.toNat + 10)
  else none

def unhexBytes : List Char → Option (List UInt8)
  | [] => some []
  | [_] => none
  | a :: b :: r => do
    let x ← hexVal a
    let y ← hexVal b
    let rest ← unhexBytes r
    pure (UInt8.ofNat (x * 16 + y) :: rest)

/-- hex → bytes → UTF-8 string → `Str`; `none` when not hex or not valid UTF-8 -/
def unhexStr (s : String) : Option Str := do
  let bs ← unhexBytes s.toList
  let ba := ByteArray.mk bs.toArray
  let str ← String.fromUTF8? ba
  pure str.toList

def hexDigit (n : Nat) : Char := if n < 10 then Char.ofNat (48 + n) else Char.ofNat (87 + n)

def hexBytes (bs : List UInt8) : String :=
  String.ofList (bs.flatMap fun b => [hexDigit (b.toNat / 16), hexDigit (b.toNat % 16)])

def hexStr (s : Str) : String := hexBytes (String.ofList s).toUTF8.toList

def boolStr (b : Bool) : String := if b then "true" else "false"

def parseInt (s : String) : Option Int := s.toInt?

end Jwt.Wire
