import JwtModel.Text
/-!
# JSON trees, Go's decoder grammar and Go's compact rendering

`parse` follows `encoding/json`'s scanner: whitespace between tokens, RFC 8259 numbers (kept as their
literal text), strings with `\uXXXX` escapes (surrogate pairs combined, lone surrogates replaced by
U+FFFD), control characters below 0x20 refused, one top-level value. Duplicate keys are kept in order —
resolving them is the codec's business.

`render` follows `json.Marshal`'s output text for strings (HTML-escaping of `<>&`, U+2028/U+2029,
`\b \f \n \r \t` short escapes, other control characters as `\u00XX`) with no insignificant whitespace.
-/
namespace Jwt

inductive Json where
  | null
  | bool (b : Bool)
  | num (lit : Str)            -- the literal text, valid per the JSON number grammar
  | str (s : Str)
  | arr (l : List Json)
  | obj (kv : List (Str × Json))
  deriving Repr, Inhabited

namespace Json

def isWs (c : Char) : Bool := c = ' ' || c = '\t' || c = '\n' || c = '\r'
def skipWs : Str → Str := List.dropWhile isWs
def isDigit (c : Char) : Bool := '0' ≤ c && c ≤ '9'

def hexVal (c : Char) : Option Nat :=
  if '0' ≤ c ∧ c ≤ '9' then some (c.toNat - 48)
  else if 'a' ≤ c ∧ c ≤ 'f' then some (c.toNat - 87)
  else if 'A' ≤ c ∧ c ≤ 'F' then some (c.toNat - 55)
  else none

def hex4 : Str → Option (Nat × Str)
  | a :: b :: c :: d :: r => do
    let a ← hexVal a; let b ← hexVal b; let c ← hexVal c; let d ← hexVal d
    pure (a * 4096 + b * 256 + c * 16 + d, r)
  | _ => none

/-- body of a string literal after the opening quote; returns the decoded string and the rest after the
closing quote -/
def parseStrBody : Nat → Str → Str → Option (Str × Str)
  | 0, _, _ => none
  | _, _, [] => none
  | f+1, acc, c :: r =>
    if c = '"' then some (acc.reverse, r)
    else if c = '\\' then
      match r with
      | '"' :: r' => parseStrBody f ('"' :: acc) r'
      | '\\' :: r' => parseStrBody f ('\\' :: acc) r'
      | '/' :: r' => parseStrBody f ('/' :: acc) r'
      | 'b' :: r' => parseStrBody f ('\x08' :: acc) r'
      | 'f' :: r' => parseStrBody f ('\x0c' :: acc) r'
      | 'n' :: r' => parseStrBody f ('\n' :: acc) r'
      | 'r' :: r' => parseStrBody f ('\r' :: acc) r'
      | 't' :: r' => parseStrBody f ('\t' :: acc) r'
      | 'u' :: r' =>
        match hex4 r' with
        | none => none
        | some (u, r2) =>
          if 0xD800 ≤ u ∧ u < 0xDC00 then
            -- high surrogate: combine with a following \uDC00..\uDFFF, else U+FFFD
            match r2 with
            | '\\' :: 'u' :: r3 =>
              match hex4 r3 with
              | some (v, r4) =>
                if 0xDC00 ≤ v ∧ v < 0xE000 then
                  parseStrBody f (Char.ofNat (0x10000 + (u - 0xD800) * 1024 + (v - 0xDC00)) :: acc) r4
                else parseStrBody f (Char.ofNat 0xFFFD :: acc) r2
              | none => none      -- malformed escape: the scanner refuses the document
            | _ => parseStrBody f (Char.ofNat 0xFFFD :: acc) r2
          else if 0xDC00 ≤ u ∧ u < 0xE000 then parseStrBody f (Char.ofNat 0xFFFD :: acc) r2
          else parseStrBody f (Char.ofNat u :: acc) r2
      | _ => none
    else if c.toNat < 0x20 then none
    else parseStrBody f (c :: acc) r

def takeDigits (s : Str) : Str × Str := (s.takeWhile isDigit, s.dropWhile isDigit)

/-- optional minus sign -/
def numSign (s : Str) : Str × Str :=
  match s with
  | '-' :: r => (['-'], r)
  | _ => ([], s)
/-- `0 | [1-9][0-9]*` -/
def numInt (s1 : Str) : Option (Str × Str) :=
  match s1 with
  | '0' :: r => some (['0'], r)
  | c :: _ => if isDigit c then some (takeDigits s1) else none
  | [] => none
/-- `(\.[0-9]+)?` -/
def numFrac (s2 : Str) : Option (Str × Str) :=
  match s2 with
  | '.' :: r => let (d, r') := takeDigits r; if d.isEmpty then none else some ('.' :: d, r')
  | _ => some ([], s2)
/-- `([eE][+-]?[0-9]+)?` -/
def numExp (s3 : Str) : Option (Str × Str) :=
  match s3 with
  | e :: r =>
    if e = 'e' ∨ e = 'E' then
      let (sg, r1) := match r with | '+' :: t => (['+'], t) | '-' :: t => (['-'], t) | _ => ([], r)
      let (d, r2) := takeDigits r1
      if d.isEmpty then none else some (e :: (sg ++ d), r2)
    else some ([], s3)
  | [] => some ([], s3)

/-- a number literal at the head of the input: `-?(0|[1-9][0-9]*)(\.[0-9]+)?([eE][+-]?[0-9]+)?` -/
def parseNum (s : Str) : Option (Str × Str) :=
  let (sign, s1) := numSign s
  match numInt s1 with
  | none => none
  | some (ip, s2) =>
    match numFrac s2 with
    | none => none
    | some (fp, s3) =>
      match numExp s3 with
      | none => none
      | some (ep, s4) => some (sign ++ ip ++ fp ++ ep, s4)

mutual
/-- a value after leading whitespace -/
def parseValue : Nat → Str → Option (Json × Str)
  | 0, _ => none
  | f+1, input =>
    match skipWs input with
    | [] => none
    | c :: r =>
      if c = 'n' then (match r with | 'u'::'l'::'l'::r' => some (.null, r') | _ => none)
      else if c = 't' then (match r with | 'r'::'u'::'e'::r' => some (.bool true, r') | _ => none)
      else if c = 'f' then (match r with | 'a'::'l'::'s'::'e'::r' => some (.bool false, r') | _ => none)
      else if c = '"' then (match parseStrBody (r.length + 1) [] r with | some (s, r') => some (.str s, r') | none => none)
      else if c = '[' then
        (match skipWs r with
         | ']' :: r' => some (.arr [], r')
         | _ => match parseValue f r with
                | some (j, r1) => (match parseTail f r1 with
                                   | some (js, r2) => some (.arr (j :: js), r2)
                                   | none => none)
                | none => none)
      else if c = '{' then
        (match skipWs r with
         | '}' :: r' => some (.obj [], r')
         | '"' :: r0 => (match parseStrBody (r0.length + 1) [] r0 with
             | some (k, r1) => (match skipWs r1 with
                 | ':' :: r2 => (match parseValue f r2 with
                     | some (j, r3) => (match parseMembers f r3 with
                                        | some (kv, r4) => some (.obj ((k, j) :: kv), r4)
                                        | none => none)
                     | none => none)
                 | _ => none)
             | none => none)
         | _ => none)
      else if c = '-' ∨ isDigit c then (match parseNum (c :: r) with | some (n, r') => some (.num n, r') | none => none)
      else none
def parseTail : Nat → Str → Option (List Json × Str)
  | 0, _ => none
  | f+1, input =>
    match skipWs input with
    | ']' :: r => some ([], r)
    | ',' :: r => (match parseValue f r with
                   | some (j, r1) => (match parseTail f r1 with
                                      | some (js, r2) => some (j :: js, r2)
                                      | none => none)
                   | none => none)
    | _ => none
def parseMembers : Nat → Str → Option (List (Str × Json) × Str)
  | 0, _ => none
  | f+1, input =>
    match skipWs input with
    | '}' :: r => some ([], r)
    | ',' :: r => (match skipWs r with
        | '"' :: r0 => (match parseStrBody (r0.length + 1) [] r0 with
            | some (k, r1) => (match skipWs r1 with
                | ':' :: r2 => (match parseValue f r2 with
                    | some (j, r3) => (match parseMembers f r3 with
                                       | some (kv, r4) => some ((k, j) :: kv, r4)
                                       | none => none)
                    | none => none)
                | _ => none)
            | none => none)
        | _ => none)
    | _ => none
end

/-- `json.Valid` + tree: exactly one value, surrounded by optional whitespace -/
def parse (s : Str) : Option Json :=
  match parseValue (s.length + 2) s with
  | some (j, rest) => if (skipWs rest).isEmpty then some j else none
  | none => none

/-! ### Rendering (json.Marshal's text) -/

def hexDigitLower (n : Nat) : Char := if n < 10 then Char.ofNat (48 + n) else Char.ofNat (87 + n)
def u4 (n : Nat) : Str :=
  ['\\', 'u', hexDigitLower (n / 4096 % 16), hexDigitLower (n / 256 % 16), hexDigitLower (n / 16 % 16), hexDigitLower (n % 16)]

/-- Go's `appendString` with `escapeHTML = true` -/
def escChar (c : Char) : Str :=
  if c = '"' then ['\\', '"']
  else if c = '\\' then ['\\', '\\']
  else if c = '\n' then ['\\', 'n']
  else if c = '\r' then ['\\', 'r']
  else if c = '\t' then ['\\', 't']
  else if c = '\x08' then ['\\', 'b']
  else if c = '\x0c' then ['\\', 'f']
  else if c.toNat < 0x20 then u4 c.toNat
  else if c = '<' ∨ c = '>' ∨ c = '&' then u4 c.toNat
  else if c.toNat = 0x2028 ∨ c.toNat = 0x2029 then u4 c.toNat
  else [c]

def escStr (s : Str) : Str := s.flatMap escChar
def quote (s : Str) : Str := '"' :: (escStr s ++ ['"'])

mutual
def render : Json → Str
  | .null => "null".toList
  | .bool true => "true".toList
  | .bool false => "false".toList
  | .num n => n
  | .str s => quote s
  | .arr [] => ['[', ']']
  | .arr (j :: js) => '[' :: (render j ++ renderTail js)
  | .obj [] => ['{', '}']
  | .obj ((k, j) :: kv) => '{' :: (quote k ++ ':' :: (render j ++ renderMembers kv))
def renderTail : List Json → Str
  | [] => [']']
  | j :: js => ',' :: (render j ++ renderTail js)
def renderMembers : List (Str × Json) → Str
  | [] => ['}']
  | (k, j) :: kv => ',' :: (quote k ++ ':' :: (render j ++ renderMembers kv))
end

/-- first value stored under an exactly matching key -/
def lookup (k : Str) : List (Str × Json) → Option Json
  | [] => none
  | (k', v) :: r => if k' = k then some v else lookup k r

end Json
end Jwt
