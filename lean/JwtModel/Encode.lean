import JwtModel.Decode
/-!
# `Encode` for every claim kind and `ClaimsData.doEncode` / `hash` (v2/claims.go and the per-kind files)

The clock, the signing key's public key, SHA-512/256+base32 (`tokenId`) and Ed25519 signing are parameters.
-/
namespace Jwt
open Jwt.Codec

structure EncEnv where
  /-- `time.Now().UTC().Unix()` -/
  now : Int
  /-- `kp.PublicKey()` -/
  pub : Str
  /-- base32(SHA-512/256(text)) -/
  tokenId : Str → Str
  /-- base64url(Ed25519 signature of text) -/
  signB64 : Str → Str
  /-- `url.Parse(s)` succeeds and has a scheme (operator account-server URL) -/
  urlHasScheme : Str → Bool

def kindTypeStr : Kind → Str
  | .operator => Gen.V2.cOperatorClaim
  | .account => Gen.V2.cAccountClaim
  | .user => Gen.V2.cUserClaim
  | .activation => Gen.V2.cActivationClaim
  | .authRequest => Gen.V2.cAuthorizationRequestClaim
  | .authResponse => Gen.V2.cAuthorizationResponseClaim
  | .generic => Gen.V2.cGenericClaim

/-- the header `encode` always passes to `doEncode` -/
def encodeHeader : Val :=
  ((zero Gen.V2.Header).set "typ" (.str Gen.V2.cTokenTypeJwt)).set "alg" (.str Gen.V2.cAlgorithmNkey)

def b64Text (s : Str) : Str := B64.encode (Utf8.encode s)

/-- `serialize`: JSON then unpadded base64url -/
def serialize (t : Ty) (v : Val) : DRes Str := do
  let text ← liftRes (encodeText codecEnv t v)
  pure (b64Text text)

/-- `ClaimsData.hash`: JSON of the standard fields (the id field is empty at this point) → token id -/
def hashOf (env : EncEnv) (claims : Val) : DRes Str := do
  let cd := (zero Gen.V2.ClaimsData).copyFrom claims claimsDataKeys
  let text ← liftRes (encodeText codecEnv Gen.V2.ClaimsData cd)
  pure (env.tokenId text)

/-- `Less` of `Exports` / `Imports` (nil entries first: repair D12), as a "less or equal" for a stable sort
(`sort.Sort` is an insertion sort, hence stable, up to 12 elements — the generators stay below) -/
def subjectOfEntry : Val → Option Str
  | .ptr e => some (e.field "subject").asStr
  | _ => none
def entryLe (a b : Val) : Bool :=
  match subjectOfEntry a, subjectOfEntry b with
  | none, _ => true
  | some _, none => false
  | some x, some y => !(decide (y < x))
def sortEntries (v : Val) : Val :=
  match v with
  | .list es => .list (es.mergeSort entryLe)
  | other => other

/-- `updateVersion` -/
def updateVersion (k : Kind) (v : Val) : Val :=
  match k with
  | .generic =>
    match v.field "nats" with
    | .map m => v.set "nats" (.map (mapStore m (lit "version") (.any (.num (intToLit Gen.V2.clibVersion)))))
    | _ => v          -- nil data map: nothing to stamp (known finding K3)
  | _ => setNats v (fun n => n.set "version" (.int Gen.V2.clibVersion))

/-- the per-kind part of `Encode` that runs before `doEncode`: subject role test, sorting, type stamp -/
def preEncode (env : EncEnv) (k : Kind) (v : Val) : DRes Val :=
  let sub := (v.field "sub").asStr
  match k with
  | .operator =>
    if !NKey.isValidPublic .operator sub then .error .err
    else
      let url := ((v.field "nats").field "account_server_url").asStr
      if url ≠ [] ∧ !env.urlHasScheme url then .error .err
      else pure (setNats v (fun n => n.set "type" (.str (kindTypeStr k))))
  | .account =>
    if !NKey.isValidPublic .account sub then .error .err
    else pure (setNats v (fun n => ((n.set "exports" (sortEntries (n.field "exports"))).set "imports" (sortEntries (n.field "imports"))).set "type" (.str (kindTypeStr k))))
  | .user =>
    if !NKey.isValidPublic .user sub then .error .err
    else pure (setNats v (fun n => n.set "type" (.str (kindTypeStr k))))
  | .activation =>
    if !NKey.isValidPublic .account sub then .error .err
    else pure (setNats v (fun n => n.set "type" (.str (kindTypeStr k))))
  | .authRequest => pure (setNats v (fun n => n.set "type" (.str (kindTypeStr k))))
  | .authResponse => pure (setNats v (fun n => n.set "type" (.str (kindTypeStr k))))
  | .generic => pure v

/-- the JSON texts `doEncode` produces: (claims object as left behind, header JSON, payload JSON) -/
def encodeParts (env : EncEnv) (k : Kind) (v : Val) : DRes (Val × Str × Str) :=
  if (v.field "sub").asStr = [] then .error .err
  else do
    let hText ← liftRes (encodeText codecEnv Gen.V2.Header encodeHeader)
    if !roleGate Gen.V2.encodeArms (expectedPrefixes k) env.pub then .error .err
    else
      let v1 := ((v.set "iss" (.str env.pub)).set "iat" (.int env.now)).set "jti" (.str [])
      let id ← hashOf env v1
      let v2 := updateVersion k (v1.set "jti" (.str id))
      let pText ← liftRes (encodeText codecEnv (schemaOf k) v2)
      pure (v2, hText, pText)

/-- `doEncode` with the fixed v2 header: the claims object as left behind by Encode, and the token -/
def doEncode (env : EncEnv) (k : Kind) (v : Val) : DRes (Val × Str) := do
  let (v2, hText, pText) ← encodeParts env k v
  let toSign := b64Text hText ++ '.' :: b64Text pText
  pure (v2, toSign ++ '.' :: env.signB64 toSign)

/-- `(*XClaims).Encode(kp)` -/
def encode (env : EncEnv) (k : Kind) (v : Val) : DRes (Val × Str) := do
  let v' ← preEncode env k v
  doEncode env k v'

end Jwt
