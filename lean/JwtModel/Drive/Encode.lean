import JwtModel.Wire
import JwtModel.Encode
import JwtModel.Drive.Decode
/-! Driver handler for `Encode`: the token id is left as a placeholder (`@@JTI@@`) and the pre-image of the
hash is printed, so that the harness can finish the computation with real SHA-512/256 and compare. -/
namespace Jwt.Drive
open Jwt Jwt.Wire Jwt.Codec

def jtiPlaceholder : Str := "@@JTI@@".toList

def handleEncode (fields : List String) : Option String :=
  match fields with
  | ["encode", kind, hexjson, now, hexpub, urlok] =>
    match kindOfName kind, unhexStr hexjson, parseInt now, unhexStr hexpub with
    | some k, some text, some now, some pub =>
      match (match undump text with | some v => Res.ok v | none => Res.err) with
        | .ok v =>
          let env : EncEnv := { now := now, pub := pub, tokenId := fun _ => jtiPlaceholder,
                                signB64 := fun _ => [], urlHasScheme := fun _ => urlok == "1" }
          match preEncode env k v with
          | .error .err => some "err"
          | .error .unsupported => some "unsupported"
          | .ok v' =>
            match encodeParts env k v' with
            | .error .err => some "err"
            | .error .unsupported => some "unsupported"
            | .ok (v2, hText, pText) =>
              let cd := (zero Gen.V2.ClaimsData).copyFrom (v2.set "jti" (.str [])) claimsDataKeys
              match encodeText codecEnv Gen.V2.ClaimsData cd with
              | .ok pre => some s!"ok {hexStr hText} {hexStr pText} {hexStr pre} {dumpStr v2}"
              | _ => some "unsupported"
        | .err => some "bad-op"
        | .unsupported => some "unsupported"
    | _, _, _, _ => some "bad-op"
  | _ => none

end Jwt.Drive
