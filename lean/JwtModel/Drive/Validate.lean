import JwtModel.Wire
import JwtModel.Validate
import JwtModel.Drive.Decode
/-! Driver handler for `Validate`: claims arrive as a canonical dump, the answers of the external parsers
(`VEnv`) and the crypto bits of embedded activation tokens arrive as tables. -/
namespace Jwt.Drive
open Jwt Jwt.Wire Jwt.Codec

structure EnvTables where
  urls : List (Str × Option URL) := []
  cidrs : List (Str × Bool) := []
  clocks : List (Str × Bool) := []
  tzs : List (Str × Bool) := []

def lookupD {β} (l : List (Str × β)) (k : Str) (d : β) : β :=
  match l.find? (fun e => e.1 = k) with
  | some (_, v) => v
  | none => d

def parseEnvEntry (t : EnvTables) (e : String) : Option EnvTables :=
  match e.splitOn ":" with
  | ["u", s, ok, sch, host, usr, path] => do
    let s ← unhexStr s
    if ok == "1" then
      let u : URL := { scheme := (← unhexStr sch), hostname := (← unhexStr host), hasUser := usr == "1", path := (← unhexStr path) }
      pure { t with urls := (s, some u) :: t.urls }
    else pure { t with urls := (s, none) :: t.urls }
  | ["c", s, b] => do pure { t with cidrs := ((← unhexStr s), b == "1") :: t.cidrs }
  | ["t", s, b] => do pure { t with clocks := ((← unhexStr s), b == "1") :: t.clocks }
  | ["z", s, b] => do pure { t with tzs := ((← unhexStr s), b == "1") :: t.tzs }
  | _ => none

def parseEnv (s : String) : Option VEnv :=
  let entries := if s.isEmpty then [] else s.splitOn ","
  match entries.foldlM parseEnvEntry ({} : EnvTables) with
  | some t => some { urlParse := fun u => lookupD t.urls u none, cidrOk := fun c => lookupD t.cidrs c false,
                     clockOk := fun c => lookupD t.clocks c false, tzOk := fun z => lookupD t.tzs z false }
  | none => none

/-- crypto stub from a table of embedded tokens: `<hextoken>:<hexissuer>:<b1><b2>` -/
def parseTokTable (s : String) : Option Crypto :=
  let entries := if s.isEmpty then [] else s.splitOn ","
  let parsed : Option (List (Str × Str × Str × Bool × Bool)) := entries.mapM fun e =>
    match e.splitOn ":" with
    | [tok, iss, bits] => do
      let tok ← unhexStr tok
      let iss ← unhexStr iss
      match splitOn '.' tok with
      | [h, p, _] => pure (iss, p, h ++ '.' :: p, bits == "10" || bits == "11", bits == "01" || bits == "11")
      | _ => pure (iss, [], [], false, false)
    | _ => none
  match parsed with
  | some es => some { verify := fun pk msg _ => es.any fun (iss, p, hp, b1, b2) =>
      match NKey.rawKey iss with
      | some k => k == pk && ((msg == Utf8.encode p && b1) || (msg == Utf8.encode hp && b2))
      | none => false }
  | none => none

def handleValidate (fields : List String) : Option String :=
  match fields with
  | ["validate", kind, dumphex, now, envs, toks] =>
    match kindOfName kind, unhexStr dumphex, parseInt now, parseEnv envs, parseTokTable toks with
    | some k, some d, some now, some env, some cr =>
      match undump d with
      | some v =>
        let r := validate env cr now ⟨k, v⟩
        some s!"{boolStr (isBlocking r false)} {boolStr (isBlocking r true)} {(r.filter (·.timeCheck)).length}"
      | none => some "bad-op"
    | _, _, _, _, _ => some "bad-op"
  | _ => none

end Jwt.Drive
