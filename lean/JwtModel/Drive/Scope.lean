import JwtModel.Wire
import JwtModel.Scope
import JwtModel.HashId
import JwtModel.Creds
import JwtModel.V1
import JwtModel.Drive.Encode
/-! Driver handlers for C14: `scopedsigner`, `issueuser`, `emptyperms`. -/
namespace Jwt.Drive
open Jwt Jwt.Wire Jwt.Codec

def handleScope (fields : List String) : Option String :=
  match fields with
  | ["scopedsigner", hexkey, kind, dumphex] =>
    match unhexStr hexkey, kindOfName kind, unhexStr dumphex with
    | some key, some k, some d =>
      match undump d with
      | some v => some (boolStr (validateScopedSigner key ⟨k, v⟩))
      | none => some "bad-op"
    | _, _, _ => some "bad-op"
  | ["issueuser", hexacct, hexuser, hexname, expires, tags, now, hexpub] =>
    -- tags: `-` = none, else comma-separated hex (possibly empty = empty list)
    match unhexStr hexacct, unhexStr hexuser, unhexStr hexname, parseInt expires, parseInt now, unhexStr hexpub with
    | some acct, some user, some name, some exp, some now, some pub =>
      let tagsV : Option (Option (List Str)) :=
        if tags == "-" then some none
        else if tags.isEmpty then some (some [])
        else (tags.splitOn ",").mapM unhexStr |>.map some
      match tagsV with
      | none => some "bad-op"
      | some tg =>
        let env : EncEnv := { now := now, pub := pub, tokenId := fun _ => jtiPlaceholder, signB64 := fun _ => [], urlHasScheme := fun _ => true }
        if !validAcct acct || !validUser user then some "err" else
        let c := issueUserClaims acct user name exp tg
        match preEncode env .user c with
        | .error _ => some "err"
        | .ok c' =>
          match encodeParts env .user c' with
          | .error .err => some "err"
          | .error .unsupported => some "unsupported"
          | .ok (v2, hText, pText) => some s!"ok {hexStr hText} {hexStr pText} {dumpStr v2}"
    | _, _, _, _, _, _ => some "bad-op"
  | ["hashid", i, su, g] =>
    match unhexStr i, unhexStr su, unhexStr g with
    | some i, some su, some g =>
      match hashId (fun base => base) i su g with
      | some base => some ("ok " ++ hexStr base)
      | none => some "err"
    | _, _, _ => some "unsupported"
  | ["blocks", t] =>
    match unhexStr t with
    | some t => some ("[" ++ ",".intercalate ((Creds.blocks t).map hexStr) ++ "]")
    | none => some "unsupported"
  | ["parsejwt", t] =>
    match unhexStr t with
    | some t => some (hexStr (Creds.parseDecoratedJWT t))
    | none => some "unsupported"
  | ["seedtext", t] =>
    match unhexStr t with
    | some t =>
      match Creds.decoratedSeedText t with
      | some s =>
        let role := match Creds.seedRole s with
          | some .user => "U" | some .account => "A" | some .operator => "O" | some .server => "N"
          | some .cluster => "C" | some .curve => "X" | _ => "-"
        some s!"ok {hexStr s} {role}"
      | none => some "err"
    | none => some "unsupported"
  | ["decorateseed", t] =>
    match unhexStr t with
    | some t => some (match Creds.decorateSeed t with | some d => "ok " ++ hexStr d | none => "err")
    | none => some "unsupported"
  | ["formatuserconfig", tok, seed, iss, b1, b2] =>
    match unhexStr tok, unhexStr seed, unhexStr iss with
    | some tok, some seed, some iss =>
      some (showDRes hexStr (Creds.formatUserConfig (cryptoFor tok iss b1 b2) tok seed))
    | _, _, _ => some "unsupported"
  | ["decoratejwt", tok, iss, b1, b2] =>
    match unhexStr tok, unhexStr iss with
    | some tok, some iss => some (showDRes hexStr (Creds.decorateJWT (cryptoFor tok iss b1 b2) tok))
    | _, _ => some "unsupported"
  | ["cleansubject", g] =>
    match unhexStr g with
    | some g => some (hexStr (cleanSubject g))
    | none => some "unsupported"
  | _ => none

end Jwt.Drive

namespace Jwt.Drive
open Jwt Jwt.Wire Jwt.Codec

def v1KindOfName (s : String) : Option V1.Kind :=
  match s with
  | "operator" => some .operator | "account" => some .account | "user" => some .user
  | "activation" => some .activation | "cluster" => some .cluster | "server" => some .server
  | "generic" => some .generic | _ => none

def handleV1 (fields : List String) : Option String :=
  match fields with
  | ["v1decode", kind, tok, iss, b1] =>
    match v1KindOfName kind, unhexStr tok, unhexStr iss with
    | some k, some tok, some iss =>
      some (showDRes dumpStr (V1.decode k (cryptoFor tok iss b1 "0") tok))
    | none, _, _ => some "bad-op"
    | _, _, _ => some "unsupported"
  | ["v1encode", kind, dumphex, now, hexpub, urlok] =>
    match v1KindOfName kind, unhexStr dumphex, parseInt now, unhexStr hexpub with
    | some k, some d, some now, some pub =>
      match undump d with
      | none => some "bad-op"
      | some v =>
        let env : EncEnv := { now := now, pub := pub, tokenId := fun _ => jtiPlaceholder,
                              signB64 := fun _ => [], urlHasScheme := fun _ => urlok == "1" }
        match V1.encodeParts env k v with
        | .error .err => some "err"
        | .error .unsupported => some "unsupported"
        | .ok (v2, hText, pText) =>
          let cd := (zero Gen.V1.ClaimsData).copyFrom ((v2.set "jti" (v.field "jti"))) V1.v1ClaimsDataKeys
          -- the pre-image keeps the previous id; when v1 sorted / stamped nothing else changes it
          match encodeText codecEnv Gen.V1.ClaimsData (cd.set "type" (v2.field "type")) with
          | .ok pre => some s!"ok {hexStr hText} {hexStr pText} {hexStr pre} {dumpStr v2}"
          | _ => some "unsupported"
    | _, _, _, _ => some "bad-op"
  | _ => none

end Jwt.Drive
