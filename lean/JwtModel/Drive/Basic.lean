import JwtModel.Wire
import JwtModel.Subject
import JwtModel.Revocation
import JwtModel.Lists
import JwtModel.DidSign
/-! Driver handlers for the small pure cores: C16 (subjects), C09 (revocation), C20 (lists). -/
namespace Jwt.Drive
open Jwt Jwt.Wire

def strLe (a b : String) : Bool := a < b || a == b

/-- canonical rendering of a revocation map: entries sorted by hex key -/
def showMap (m : Rev.M Str) : String :=
  let es := (m.map fun (k, v) => (hexStr k, v)).mergeSort (fun a b => strLe a.1 b.1)
  ";".intercalate (es.map fun (k, v) => s!"{k}={v}")

def splitColon (s : String) : List String := s.splitOn ":"

/-- `rev <qkeys> <qtimes> <op>…` — ops: `r:<hexkey>:<t>` revoke-at, `c:<hexkey>` clear, `k` compact.
After every step prints the map, what compaction returned, and all (key,time) answers. -/
def handleRev (qk qt : String) (ops : List String) : String :=
  let all : Str := ['*']
  match (qk.splitOn ",").mapM unhexStr, (qt.splitOn ",").mapM parseInt with
  | some keys, some times =>
    let rec go (m : Rev.M Str) (ops : List String) (acc : List String) : Option (List String) :=
      match ops with
      | [] => some acc.reverse
      | op :: rest =>
        let r : Option (Rev.M Str × Rev.M Str) :=
          match splitColon op with
          | ["r", k, t] => do
              let k ← unhexStr k
              let t ← parseInt t
              pure (Rev.revoke m k t, [])
          | ["c", k] => do
              let k ← unhexStr k
              pure (Rev.clear m k, [])
          | ["k"] => some (Rev.compact all m)
          | _ => none
        match r with
        | none => none
        | some (m', del) =>
          let bits := String.ofList (keys.flatMap fun k => times.map fun t => if Rev.isRevoked all m' k t then '1' else '0')
          go m' rest (s!"map[{showMap m'}]del[{showMap del}]q[{bits}]" :: acc)
    match go [] ops [] with
    | some outs => "|".intercalate outs
    | none => "bad-op"
  | _, _ => "bad-op"

def showList (l : List Str) : String := ",".intercalate (l.map hexStr)

/-- `list <tag|str> <op>…` — ops: `a:<hex>,<hex>…` Add, `r:<hex>,…` Remove, `c:<hex>` Contains. -/
def handleList (kind : String) (ops : List String) : String :=
  let isTag := kind == "tag"
  let rec go (l : List Str) (ops : List String) (acc : List String) : Option (List String) :=
    match ops with
    | [] => some acc.reverse
    | op :: rest =>
      match splitColon op with
      | ["a", args] =>
        match (if args.isEmpty then some [] else (args.splitOn ",").mapM unhexStr) with
        | some ps =>
          let l' := if isTag then Lists.tagAdd l ps else Lists.strAdd l ps
          go l' rest (s!"[{showList l'}]" :: acc)
        | none => none
      | ["r", args] =>
        match (if args.isEmpty then some [] else (args.splitOn ",").mapM unhexStr) with
        | some ps =>
          let l' := if isTag then Lists.tagRemove l ps else Lists.strRemove l ps
          go l' rest (s!"[{showList l'}]" :: acc)
        | none => none
      | ["c", p] =>
        match unhexStr p with
        | some p => go l rest (boolStr (if isTag then Lists.tagContains l p else Lists.strContains l p) :: acc)
        | none => none
      | _ => none
  match go [] ops [] with
  | some outs => "|".intercalate outs
  | none => "bad-op"

def parseKind (s : String) : Option Kind :=
  match s with
  | "operator" => some .operator | "account" => some .account | "user" => some .user
  | "activation" => some .activation | "authorization_request" => some .authRequest
  | "authorization_response" => some .authResponse | "generic" => some .generic
  | _ => none

/-- `nil` or `<kind>:<hexissuer>:<hexsubject>:<hexissueraccount>` -/
def parseClaimView (s : String) : Option (Option ClaimView) :=
  if s == "nil" then some none else
  match s.splitOn ":" with
  | [k, i, su, ia] => do
    pure (some ⟨(← parseKind k), (← unhexStr i), (← unhexStr su), (← unhexStr ia)⟩)
  | _ => none

def parseStrList (s : String) : Option (List Str) :=
  if s.isEmpty then some [] else (s.splitOn ",").mapM unhexStr

def handleBasic (fields : List String) : Option String :=
  match fields with
  | ["opdidsign", subj, strict, keys, claim] =>
    match unhexStr subj, parseStrList keys, parseClaimView claim with
    | some subj, some keys, some c => some (boolStr (operatorDidSign subj (strict == "1") keys c))
    | _, _, _ => some "bad-op"
  | ["acdidsign", subj, keys, claim] =>
    match unhexStr subj, parseStrList keys, parseClaimView claim with
    | some subj, some keys, some c => some (boolStr (accountDidSign subj keys c))
    | _, _, _ => some "bad-op"
  | ["contained", p, q] =>
    match unhexStr p, unhexStr q with
    | some p, some q => some (boolStr (isContainedIn p q))
    | _, _ => some "unsupported"
  | ["wild", p] =>
    match unhexStr p with
    | some p => some (boolStr (hasWildCards p))
    | none => some "unsupported"
  | ["wildcount", p] =>
    match unhexStr p with
    | some p => some (toString (countTokenWildcards p))
    | none => some "unsupported"
  | "rev" :: qk :: qt :: ops => some (handleRev qk qt ops)
  | "list" :: kind :: ops => some (handleList kind ops)
  | ["cidrset", v] =>
    match unhexStr v with
    | some v => some s!"[{showList (Lists.cidrSet v)}]"
    | none => some "unsupported"
  | ["claimrevoked", m, claim] =>
    -- m: `hexkey=t;…`, claim: `nil` or `<hexsub>:<iat>`
    let ents : Option (Rev.M Str) := if m.isEmpty then some [] else (m.splitOn ";").mapM fun e =>
      match e.splitOn "=" with
      | [k, v] => do pure ((← unhexStr k), (← parseInt v))
      | _ => none
    let cl : Option (Option (Str × Int)) :=
      if claim == "nil" then some none else
      match claim.splitOn ":" with
      | [s, t] => do pure (some ((← unhexStr s), (← parseInt t)))
      | _ => none
    match ents, cl with
    | some m, some c => some (boolStr (Rev.isClaimRevoked ['*'] [] m c))
    | _, _ => some "bad-op"
  | _ => none

end Jwt.Drive
