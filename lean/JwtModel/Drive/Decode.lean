import JwtModel.Wire
import JwtModel.Decode
/-! Driver handlers: generic codec (`codec`), the decoders (`decode`, `decodegeneric`, `decodetyped`). -/
namespace Jwt.Drive
open Jwt Jwt.Wire Jwt.Codec

def kindName : Kind → String
  | .operator => "operator" | .account => "account" | .user => "user" | .activation => "activation"
  | .authRequest => "authorization_request" | .authResponse => "authorization_response" | .generic => "generic"

def kindOfName (s : String) : Option Kind :=
  [Kind.operator, .account, .user, .activation, .authRequest, .authResponse, .generic].find? (fun k => kindName k == s)

def showDRes {α} (f : α → String) : DRes α → String
  | .ok a => "ok " ++ f a
  | .error .err => "err"
  | .error .unsupported => "unsupported"

def dumpStr (v : Val) : String := String.ofList (dump 10000 v)

/-- crypto stub: the harness tells, for the issuer string *it* saw, whether the signature verifies over the
payload segment (`b1`) and over header.payload (`b2`); the model must arrive at the same key and text itself. -/
def stubCrypto (issuer : Str) (payloadSeg hp : Str) (b1 b2 : Bool) : Crypto :=
  { verify := fun pk msg _ =>
      match NKey.rawKey issuer with
      | some k => k == pk && ((msg == Utf8.encode payloadSeg && b1) || (msg == Utf8.encode hp && b2))
      | none => false }

def cryptoFor (token : Str) (issuer : Str) (b1 b2 : String) : Crypto :=
  match splitOn '.' token with
  | [h, p, _] => stubCrypto issuer p (h ++ '.' :: p) (b1 == "1") (b2 == "1")
  | _ => { verify := fun _ _ _ => false }

def showClaims (c : Claims) : String := kindName c.kind ++ " " ++ dumpStr c.val

def handleDecode (fields : List String) : Option String :=
  match fields with
  | ["codec", schema, hexjson] =>
    match Gen.schemaTable.find? (fun e => e.1 == schema), unhexStr hexjson with
    | some (_, t), some text =>
      match Json.parse text with
      | none => some "err"
      | some j =>
        match unmarshal codecEnv decFuel t j (zero t) with
        | .err => some "err"
        | .unsupported => some "unsupported"
        | .ok v =>
          match marshal codecEnv fuel t v with
          | .ok j' => some s!"ok {dumpStr v} {hexStr (Json.render j')}"
          | .err => some s!"ok {dumpStr v} marshal-error"
          | .unsupported => some "unsupported"
    | none, _ => some "bad-op"
    | _, none => some "unsupported"
  | ["json", hexjson] =>
    -- parse + canonical re-render of free-form JSON (validates the JSON text layer on its own)
    match unhexStr hexjson with
    | some text =>
      match Json.parse text with
      | none => some "err"
      | some j => some ("ok " ++ hexStr (Json.render j))
    | none => some "unsupported"
  | ["decode", tok, iss, b1, b2] =>
    match unhexStr tok, unhexStr iss with
    | some tok, some iss => some (showDRes showClaims (decode (cryptoFor tok iss b1 b2) tok))
    | _, _ => some "unsupported"
  | ["decodegeneric", tok, iss, b1, b2] =>
    match unhexStr tok, unhexStr iss with
    | some tok, some iss => some (showDRes showClaims (decodeGeneric (cryptoFor tok iss b1 b2) tok))
    | _, _ => some "unsupported"
  | ["decodetyped", kind, tok, iss, b1, b2] =>
    match kindOfName kind, unhexStr tok, unhexStr iss with
    | some k, some tok, some iss => some (showDRes showClaims (decodeTyped k (cryptoFor tok iss b1 b2) tok))
    | none, _, _ => some "bad-op"
    | _, _, _ => some "unsupported"
  | ["nkeyrole", k] =>
    match unhexStr k with
    | some k =>
      let r := match NKey.roleOf k with
        | some .operator => "operator" | some .account => "account" | some .user => "user"
        | some .server => "server" | some .cluster => "cluster" | some .curve => "curve" | _ => "none"
      let len := match NKey.rawKey k with | some pk => toString pk.length | none => "-"
      some s!"{r} {len}"
    | none => some "unsupported"
  | ["b64dec", s] =>
    match unhexStr s with
    | some s => match B64.decodeString s with
      | some bs => some ("ok " ++ hexBytes (bs.map (fun n => UInt8.ofNat n)))
      | none => some "err"
    | none => some "unsupported"
  | _ => none

end Jwt.Drive
