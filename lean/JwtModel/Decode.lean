import JwtModel.Codec
import JwtModel.NKey
import JwtModel.Base64
import JwtModel.Utf8
import JwtModel.DidSign
import JwtModel.Gen.Schemas
import JwtModel.Gen.Consts
import JwtModel.Gen.Prefixes
/-!
# The decode pipeline: `Decode`, `DecodeGeneric`, the typed decoders, `loadClaims` and the v1 migrations
(v2/decoder*.go, v2/genericlaims.go, v2/header.go, v2/claims.go `verify`)

Struct schemas, constants and the issuer-role tables come from `JwtModel/Gen` (regenerated from
/repo on every run). Cryptography is a parameter.
-/
namespace Jwt
open Jwt.Codec

abbrev Bytes := List Nat

/-- Ed25519 as a parameter: `verify publicKey message signature` -/
structure Crypto where
  verify : Bytes → Bytes → Bytes → Bool

inductive DecErr where
  | err            -- the library returns an error
  | unsupported    -- outside the modelled fragment (never compared)
  deriving Repr, DecidableEq

abbrev DRes (α : Type) := Except DecErr α

def liftRes {α} : Res α → DRes α
  | .ok a => .ok a
  | .err => .error .err
  | .unsupported => .error .unsupported

def lit (x : String) : Str := x.toList

/-! ### values: field access helpers -/
def Val.field (v : Val) (k : String) : Val :=
  match v with
  | .struct fs => (getField fs k.toList).getD .nil
  | _ => .nil
def Val.set (v : Val) (k : String) (x : Val) : Val :=
  match v with
  | .struct fs => .struct (setField fs k.toList x)
  | _ => v
def Val.asStr : Val → Str | .str s => s | _ => []
def Val.asInt : Val → Int | .int i => i | _ => 0
def Val.asBool : Val → Bool | .bool b => b | _ => false
/-- copy the listed fields of `src` into `dst` -/
def Val.copyFrom (dst src : Val) (keys : List String) : Val :=
  keys.foldl (fun d k => d.set k (src.field k)) dst

def claimsDataKeys : List String := ["aud", "exp", "jti", "iat", "iss", "name", "nbf", "sub"]

/-- `NewUserScope()`: kind = user scope, template NATS limits unlimited -/
def userScopeBase : Val :=
  let z := zero Gen.V2.UserScope
  let tmpl := ((z.field "template").set "subs" (.int Gen.V2.cNoLimit)).set "data" (.int Gen.V2.cNoLimit) |>.set "payload" (.int Gen.V2.cNoLimit)
  (z.set "kind" (.int 1)).set "template" tmpl

def codecEnv : CodecEnv := { userScope := Gen.V2.UserScope, userScopeBase := userScopeBase }

def decodeJson (t : Ty) (base : Val) (j : Json) : DRes Val := liftRes (unmarshal codecEnv decFuel t j base)

/-! ### header -/
structure Header where
  typ : Str
  alg : Str
  deriving Repr

/-- `Header.Valid`: type is JWT (upper-cased), algorithm (lower-cased) has the legacy name as prefix AND is one
of the two names -/
def headerValid (h : Header) : Bool :=
  decide (Gen.V2.cTokenTypeJwt = goUpper h.typ) &&
  isPrefixB Gen.V2.cAlgorithmNkeyOld (goLower h.alg) &&
  (decide (Gen.V2.cAlgorithmNkeyOld = goLower h.alg) || decide (Gen.V2.cAlgorithmNkey = goLower h.alg))

/-- base64url segment → bytes → text -/
def segmentText (seg : Str) : DRes Str :=
  match B64.decodeString seg with
  | none => .error .err
  | some bs =>
    match Utf8.decode bs with
    | some s => .ok s
    | none => .error .unsupported   -- invalid UTF-8 inside JSON: Go substitutes U+FFFD; not modelled

def parseJsonText (s : Str) : DRes Json :=
  match Json.parse s with
  | some j => .ok j
  | none => .error .err

/-- `parseHeaders` -/
def parseHeaders (seg : Str) : DRes Header := do
  let text ← segmentText seg
  let j ← parseJsonText text
  let v ← decodeJson Gen.V2.Header (zero Gen.V2.Header) j
  let h : Header := { typ := (v.field "typ").asStr, alg := (v.field "alg").asStr }
  if headerValid h then pure h else .error .err

/-! ### loaders and migrations -/
def kindOfType (t : Str) : Option Kind :=
  if t = Gen.V2.cOperatorClaim then some .operator
  else if t = Gen.V2.cAccountClaim then some .account
  else if t = Gen.V2.cUserClaim then some .user
  else if t = Gen.V2.cActivationClaim then some .activation
  else if t = Gen.V2.cAuthorizationRequestClaim then some .authRequest
  else if t = Gen.V2.cAuthorizationResponseClaim then some .authResponse
  else none

def schemaOf : Kind → Ty
  | .operator => Gen.V2.OperatorClaims
  | .account => Gen.V2.AccountClaims
  | .user => Gen.V2.UserClaims
  | .activation => Gen.V2.ActivationClaims
  | .authRequest => Gen.V2.AuthorizationRequestClaims
  | .authResponse => Gen.V2.AuthorizationResponseClaims
  | .generic => Gen.V2.GenericClaims

def goTypeName : Kind → String
  | .operator => "OperatorClaims"
  | .account => "AccountClaims"
  | .user => "UserClaims"
  | .activation => "ActivationClaims"
  | .authRequest => "AuthorizationRequestClaims"
  | .authResponse => "AuthorizationResponseClaims"
  | .generic => "GenericClaims"

/-- move top-level `type`/`tags` of a v1 payload into the `nats` section and stamp version 1 -/
def rehomeV1 (nats v1 : Val) : Val :=
  ((nats.set "type" (v1.field "type")).set "tags" (v1.field "tags")).set "version" (.int 1)

/-- `v1OperatorClaims.migrateV1` -/
def migrateOperator (v1 : Val) : Val :=
  let z := zero Gen.V2.OperatorClaims
  let n1 := v1.field "nats"
  let nats := (z.field "nats").copyFrom n1 ["signing_keys", "account_server_url", "operator_service_urls", "system_account"]
  (z.copyFrom v1 claimsDataKeys).set "nats" (rehomeV1 nats v1)

/-- `v1AccountClaims.migrateV1`: signing-key list becomes a map of plain keys -/
def migrateAccount (v1 : Val) : Val :=
  let z := zero Gen.V2.AccountClaims
  let n1 := v1.field "nats"
  let l1 := n1.field "limits"
  let limits := ((z.field "nats").field "limits").copyFrom l1 ["subs", "data", "payload", "imports", "exports", "wildcards", "disallow_bearer", "conn", "leaf"]
  let sk : List (Str × Val) :=
    match n1.field "signing_keys" with
    | .list ks => ks.foldl (fun m k => mapStore m k.asStr .nil) []
    | _ => []
  let nats := ((z.field "nats").copyFrom n1 ["imports", "exports", "revocations"]).set "limits" limits |>.set "signing_keys" (.map sk)
  (z.copyFrom v1 claimsDataKeys).set "nats" (rehomeV1 nats v1)

/-- `v1UserClaims.migrateV1` -/
def migrateUser (v1 : Val) : Val :=
  let z := zero Gen.V2.UserClaims
  let n1 := v1.field "nats"
  let nats := ((z.field "nats").copyFrom n1 ["pub", "sub", "resp", "src", "times", "times_location", "subs", "data", "payload", "bearer_token"]).set
    "issuer_account" (v1.field "issuer_account")
  (z.copyFrom v1 claimsDataKeys).set "nats" (rehomeV1 nats v1)

/-- `v1ActivationClaims.migrateV1` -/
def migrateActivation (v1 : Val) : Val :=
  let z := zero Gen.V2.ActivationClaims
  let n1 := v1.field "nats"
  let nats := (((z.field "nats").set "subject" (n1.field "subject")).set "kind" (n1.field "type")).set "issuer_account" (v1.field "issuer_account")
  (z.copyFrom v1 claimsDataKeys).set "nats" (rehomeV1 nats v1)

def setNats (v : Val) (f : Val → Val) : Val := v.set "nats" (f (v.field "nats"))

/-- the kinds without a v1 form refuse a nats section that declares another type (repair D13) -/
def declaredOk (kind : Str) (v : Val) : Bool :=
  let t := ((v.field "nats").field "type").asStr
  t == [] || t == kind

/-- ... and a nats section that declares a newer version than the one the payload was identified with (a top-level
`type` says version 1): the claims returned must not report a version whose signature layout was not checked (repair D14) -/
def versionOk (ver : Int) (v : Val) : Bool :=
  decide (((v.field "nats").field "version").asInt ≤ ver)

/-- does a decoded account carry tiered JetStream limits? -/
def accountHasTiers (v : Val) : Bool :=
  match ((v.field "nats").field "limits").field "tiered_limits" with
  | .map (_ :: _) => true
  | _ => false

/-- `load{Operator,Account,User,Activation}`: version switch with an error default -/
def loadTyped (k : Kind) (ver : Int) (j : Json) : DRes Val :=
  match k with
  | .operator =>
    if ver = 1 then do let v ← decodeJson Gen.V2.v1OperatorClaims (zero Gen.V2.v1OperatorClaims) j; pure (migrateOperator v)
    else if ver = 2 then decodeJson Gen.V2.OperatorClaims (zero Gen.V2.OperatorClaims) j
    else .error .err
  | .account =>
    if ver = 1 then do let v ← decodeJson Gen.V2.v1AccountClaims (zero Gen.V2.v1AccountClaims) j; pure (migrateAccount v)
    else if ver = 2 then do
      -- `v2a.SigningKeys = make(SigningKeys)` before decoding
      let base := setNats (zero Gen.V2.AccountClaims) (fun n => n.set "signing_keys" (.map []))
      let v ← decodeJson Gen.V2.AccountClaims base j
      -- tiers present ⇒ the flat JetStream limits are cleared
      let lim := (v.field "nats").field "limits"
      if accountHasTiers v then
        let lim' := ["mem_storage", "disk_storage", "streams", "consumer", "max_ack_pending", "mem_max_stream_bytes", "disk_max_stream_bytes"].foldl
          (fun l k => l.set k (.int 0)) lim |>.set "max_bytes_required" (.bool false)
        pure (setNats v (fun n => n.set "limits" lim'))
      else pure v
    else .error .err
  | .user =>
    if ver = 1 then do
      let z := zero Gen.V2.v1UserClaims
      let base := setNats z (fun n => (((n.set "subs" (.int Gen.V2.cNoLimit)).set "data" (.int Gen.V2.cNoLimit)).set "payload" (.int Gen.V2.cNoLimit)).set "max" (.int Gen.V2.cNoLimit))
      let v ← decodeJson Gen.V2.v1UserClaims base j
      pure (migrateUser v)
    else if ver = 2 then decodeJson Gen.V2.UserClaims (zero Gen.V2.UserClaims) j
    else .error .err
  | .activation =>
    if ver = 1 then do
      let z := zero Gen.V2.v1ActivationClaims
      let base := setNats z (fun n => (n.set "max" (.int Gen.V2.cNoLimit)).set "payload" (.int Gen.V2.cNoLimit))
      let v ← decodeJson Gen.V2.v1ActivationClaims base j
      pure (migrateActivation v)
    else if ver = 2 then decodeJson Gen.V2.ActivationClaims (zero Gen.V2.ActivationClaims) j
    else .error .err
  | .authRequest => do
    let v ← decodeJson Gen.V2.AuthorizationRequestClaims (zero Gen.V2.AuthorizationRequestClaims) j
    if declaredOk Gen.V2.cAuthorizationRequestClaim v && versionOk ver v then pure v else .error .err
  | .authResponse => do
    let v ← decodeJson Gen.V2.AuthorizationResponseClaims (zero Gen.V2.AuthorizationResponseClaims) j
    if declaredOk Gen.V2.cAuthorizationResponseClaim v && versionOk ver v then pure v else .error .err
  | .generic => decodeJson Gen.V2.GenericClaims (zero Gen.V2.GenericClaims) j

structure Claims where
  kind : Kind
  val : Val
  deriving Repr

def Claims.issuer (c : Claims) : Str := (c.val.field "iss").asStr
def Claims.subject (c : Claims) : Str := (c.val.field "sub").asStr

/-- what the payload declares: `identifier.Kind()` / `identifier.Version()` -/
structure Ident where
  kindStr : Str
  version : Int

def identOf (j : Json) : DRes Ident := do
  let id ← decodeJson Gen.V2.identifier (zero Gen.V2.identifier) j
  let top := (id.field "type").asStr
  let nats := id.field "nats"
  pure (if top ≠ [] then ⟨top, 1⟩ else ⟨(nats.field "type").asStr, (nats.field "version").asInt⟩)

/-- `loadClaims`: returns the version used for picking the signed text (−1 for generic kinds) and the claims -/
def loadClaims (j : Json) : DRes (Int × Claims) := do
  let id ← identOf j
  if id.version > Gen.V2.clibVersion then .error .err
  else
    match kindOfType id.kindStr with
    | some k => do let v ← loadTyped k id.version j; pure (id.version, ⟨k, v⟩)
    | none =>
      if id.kindStr = lit "cluster" ∨ id.kindStr = lit "server" then .error .err
      else do let v ← loadTyped .generic 0 j; pure (-1, ⟨.generic, v⟩)

/-! ### signature and issuer role -/

/-- `ClaimsData.verify`: the issuer must be a public nkey carrying a 32-byte key (repair D11) -/
def verifySig (cr : Crypto) (issuer : Str) (text : Str) (sig : Bytes) : Bool :=
  match NKey.rawKey issuer with
  | some pk => pk.length == 32 && cr.verify pk (Utf8.encode text) sig
  | none => false

def expectedPrefixes (k : Kind) : Option (List NKey.Role) :=
  match Gen.V2.expectedPrefixes.find? (fun e => e.1 == goTypeName k) with
  | some (_, r) => r
  | none => some []      -- a claims type without the method cannot exist; refuse everything

/-- the `for _, p := range prefixes { switch p { case … } }` loop -/
def roleGate (arms : List NKey.Role) (prefixes : Option (List NKey.Role)) (issuer : Str) : Bool :=
  match prefixes with
  | none => true
  | some ps => ps.any fun p => arms.contains p && NKey.isValidPublic p issuer

/-! ### the decoders -/

/-- the text whose signature `Decode` checks. Generic claims carry no reliable version: the header
algorithm tells which text was signed (repair D1); otherwise version ≤ 1 means the legacy layout. -/
def signedText (header : Header) (ver0 : Int) (kind : Kind) (h p : Str) : Str :=
  let ver := if kind = .generic ∧ header.alg ≠ Gen.V2.cAlgorithmNkeyOld then Gen.V2.clibVersion else ver0
  if ver ≤ 1 then p else h ++ '.' :: p

/-- `Decode` -/
def decode (cr : Crypto) (token : Str) : DRes Claims :=
  match splitOn '.' token with
  | [h, p, s] => do
    let header ← parseHeaders h
    let text ← segmentText p
    let j ← parseJsonText text
    let (ver0, claim) ← loadClaims j
    let sig ← match B64.decodeString s with | some b => pure b | none => .error .err
    if !verifySig cr claim.issuer (signedText header ver0 claim.kind h p) sig then .error .err
    else if !roleGate Gen.V2.decodeArms (expectedPrefixes claim.kind) claim.issuer then .error .err
    else pure claim
  | _ => .error .err

/-- `Decode<Kind>Claims` -/
def decodeTyped (k : Kind) (cr : Crypto) (token : Str) : DRes Claims := do
  let c ← decode cr token
  if c.kind = k then pure c else .error .err

/-- the text whose signature `DecodeGeneric` checks: chosen by the exact header algorithm -/
def genericSignedText (header : Header) (h p : Str) : Str :=
  if header.alg = Gen.V2.cAlgorithmNkeyOld then p else h ++ '.' :: p

/-- `DecodeGeneric` -/
def decodeGeneric (cr : Crypto) (token : Str) : DRes Claims :=
  match splitOn '.' token with
  | [h, p, s] => do
    let header ← parseHeaders h
    let text ← segmentText p
    let j ← parseJsonText text
    let gc ← decodeJson Gen.V2.decodeGenericTarget (zero Gen.V2.decodeGenericTarget) j
    let sig ← match B64.decodeString s with | some b => pure b | none => .error .err
    let issuer := (gc.field "iss").asStr
    let base := (zero Gen.V2.GenericClaims).copyFrom gc ("nats" :: claimsDataKeys)
    if header.alg = Gen.V2.cAlgorithmNkeyOld then
      if !verifySig cr issuer (genericSignedText header h p) sig then .error .err
      else
        -- re-home the v1 top-level `type` and `tags` into the data map (allocated if nil: repair D8)
        let data : List (Str × Val) := match gc.field "nats" with | .map m => m | _ => []
        let tp := (gc.field "type").asStr
        let data := if tp ≠ [] then mapStore data (lit "type") (.any (.str tp)) else data
        let data := match gc.field "tags" with
          | .list (t :: ts) => mapStore data (lit "tags") (.any (.arr ((t :: ts).map fun x => .str x.asStr)))
          | _ => data
        pure ⟨.generic, base.set "nats" (.map data)⟩
    else
      if !verifySig cr issuer (genericSignedText header h p) sig then .error .err
      else pure ⟨.generic, base⟩
  | _ => .error .err

end Jwt
