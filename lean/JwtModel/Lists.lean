import JwtModel.Text
/-!
# TagList / StringList / CIDRList (v2/types.go)

Generic in the normaliser: `TagList` uses `normTag = strings.ToLower ∘ strings.TrimSpace`, `StringList`
uses `id`. `Add` normalises and then calls `Contains`, which normalises again (transcribed as such).
-/
namespace Jwt.Lists
section
variable {α : Type} [DecidableEq α]

/-- Go `Contains`: normalise the query, linear search -/
def contains (norm : α → α) (l : List α) (p : α) : Bool := decide (norm p ∈ l)

/-- Go `Add` (one argument): `v = norm p; if !u.Contains(v) && v != "" { append }` — note Contains normalises again -/
def add1 (norm : α → α) (empty : α) (l : List α) (p : α) : List α :=
  let v := norm p
  if contains norm l v = false ∧ v ≠ empty then l ++ [v] else l

/-- Go `Remove` (one argument): delete the first element equal to `norm p` -/
def remove1 (norm : α → α) (l : List α) (p : α) : List α := l.erase (norm p)


inductive Op (α : Type) where | add (p : α) | remove (p : α)
def step (norm : α → α) (empty : α) (l : List α) : Op α → List α
  | .add p => add1 norm empty l p
  | .remove p => remove1 norm l p

end

/-- `TagList`'s normaliser -/
def normTag (s : Str) : Str := goLower (trimSpace s)

def tagContains (l : List Str) (p : Str) : Bool := contains normTag l p
def tagAdd (l : List Str) (ps : List Str) : List Str := ps.foldl (add1 normTag []) l
def tagRemove (l : List Str) (ps : List Str) : List Str := ps.foldl (remove1 normTag) l
def strContains (l : List Str) (p : Str) : Bool := contains id l p
def strAdd (l : List Str) (ps : List Str) : List Str := ps.foldl (add1 id []) l
def strRemove (l : List Str) (ps : List Str) : List Str := ps.foldl (remove1 id) l

/-- `CIDRList.Set(values)`: `*c = CIDRList{}; c.Add(strings.Split(strings.ToLower(values), ",")...)` -/
def cidrSet (values : Str) : List Str := tagAdd [] (splitOn ',' (goLower values))

end Jwt.Lists
