import JwtModel.Json
import JwtModel.Lists
/-!
# Schema-generic model of `encoding/json` on the library's struct types

`Ty` mirrors Go types (the struct schemas themselves are *generated* from /repo's source into
`JwtModel/Gen/Schemas.lean`); `Val` mirrors Go values; `marshal` / `unmarshal` follow
`json.Marshal` / `json.Unmarshal` including `omitempty`, null handling, case-insensitive key matching,
duplicate keys, integer range errors and the five custom codecs of the library.

Whatever the model does not reproduce faithfully is answered `unsupported` (never guessed):
duplicate keys that hit a container-typed field, non-integer numbers in free-form data, … .
Struct values are flattened the way `encoding/json` sees them: a list of (JSON key, value) in field order.
-/
namespace Jwt

inductive Custom where
  | exportType | samplingRate | scopeType | signingKeys | cidrList
  deriving DecidableEq, Repr

inductive Ty where
  | bool
  | str
  | int (signed : Bool) (bits : Nat)
  | ptr (t : Ty)
  | slice (t : Ty)
  | map (t : Ty)
  | struct (fs : List (Str × Bool × Ty))     -- (json key, omitempty, type)
  | custom (c : Custom)
  | any
  deriving Repr, Inhabited

inductive Val where
  | bool (b : Bool)
  | str (s : Str)
  | int (i : Int)
  | nil                                       -- nil pointer / slice / map / interface
  | ptr (v : Val)
  | list (vs : List Val)
  | map (kvs : List (Str × Val))
  | struct (fs : List (Str × Val))
  | any (j : Json)                            -- non-nil interface{} holding decoded JSON
  deriving Repr, Inhabited

inductive Res (α : Type) where
  | ok (a : α)
  | err
  | unsupported
  deriving Repr

namespace Res
def bind {α β} (r : Res α) (f : α → Res β) : Res β :=
  match r with | ok a => f a | err => err | unsupported => unsupported
instance : Monad Res where
  pure := ok
  bind := bind
def isOk {α} : Res α → Bool | ok _ => true | _ => false
end Res

/-- environment of the codec: the generated schema of `UserScope` and what `NewUserScope()` returns -/
structure CodecEnv where
  userScope : Ty
  userScopeBase : Val

namespace Codec

/-! ### zero values, emptiness -/
mutual
def zero : Ty → Val
  | .bool => .bool false
  | .str => .str []
  | .int _ _ => .int 0
  | .ptr _ => .nil
  | .slice _ => .nil
  | .map _ => .nil
  | .struct fs => .struct (zeroFields fs)
  | .custom .exportType => .int 0
  | .custom .samplingRate => .int 0
  | .custom .scopeType => .int 0
  | .custom .signingKeys => .nil
  | .custom .cidrList => .nil
  | .any => .nil
def zeroFields : List (Str × Bool × Ty) → List (Str × Val)
  | [] => []
  | (k, _, t) :: r => (k, zero t) :: zeroFields r
end

/-- Go's `isEmptyValue` (structs are never empty) -/
def isEmptyValue : Val → Bool
  | .bool b => !b
  | .str s => s.isEmpty
  | .int i => i == 0
  | .nil => true
  | .ptr _ => false
  | .list vs => vs.isEmpty
  | .map kvs => kvs.isEmpty
  | .struct _ => false
  | .any _ => false

/-! ### integers -/
def intMin (signed : Bool) (bits : Nat) : Int := if signed then -(2 ^ (bits - 1) : Int) else 0
def intMax (signed : Bool) (bits : Nat) : Int := if signed then (2 ^ (bits - 1) : Int) - 1 else (2 ^ bits : Int) - 1

def digitsToNat (ds : Str) : Nat := ds.foldl (fun n c => n * 10 + (c.toNat - 48)) 0

/-- `strconv.ParseInt/ParseUint` on a JSON number literal: only plain integers, within range;
`-0` is fine for signed targets and refused for unsigned ones -/
def litToInt (signed : Bool) (bits : Nat) (lit : Str) : Option Int :=
  let (neg, ds) := match lit with | '-' :: r => (true, r) | _ => (false, lit)
  if ds.isEmpty ∨ !ds.all Json.isDigit then none
  else if neg ∧ !signed then none
  else
    let n : Int := digitsToNat ds
    let v := if neg then -n else n
    if intMin signed bits ≤ v ∧ v ≤ intMax signed bits then some v else none

def natToDigits : Nat → Nat → Str
  | 0, _ => ['0']
  | f+1, n => if n < 10 then [Char.ofNat (48 + n)] else natToDigits f (n / 10) ++ [Char.ofNat (48 + n % 10)]
def intToLit (i : Int) : Str :=
  if i < 0 then '-' :: natToDigits (i.natAbs + 1) i.natAbs else natToDigits (i.natAbs + 1) i.natAbs

/-! ### key folding (`encoding/json`'s case-insensitive field match) -/
def foldKeyChar (c : Char) : Char :=
  if 'a' ≤ c ∧ c ≤ 'z' then Char.ofNat (c.toNat - 32)
  else if c.toNat = 0x212a then 'K'
  else if c.toNat = 0x17f then 'S'
  else c
def foldKey (s : Str) : Str := s.map foldKeyChar

/-- index of the struct field a JSON key is decoded into: exact match first, else first folded match -/
def findField (fs : List (Str × Bool × Ty)) (key : Str) : Option (Str × Ty) :=
  match fs.find? (fun f => f.1 = key) with
  | some (k, _, t) => some (k, t)
  | none =>
    match fs.find? (fun f => foldKey f.1 = foldKey key) with
    | some (k, _, t) => some (k, t)
    | none => none

def getField (fs : List (Str × Val)) (k : Str) : Option Val :=
  match fs.find? (fun f => f.1 = k) with
  | some (_, v) => some v
  | none => none
def setField (fs : List (Str × Val)) (k : Str) (v : Val) : List (Str × Val) :=
  fs.map fun f => if f.1 = k then (k, v) else f

def strLe (a b : Str) : Bool := !(decide (b < a))
def sortByKey {α} (l : List (Str × α)) : List (Str × α) := l.mergeSort (fun a b => strLe a.1 b.1)
/-- insert or overwrite in an association list (a Go map store) -/
def mapStore {α} (m : List (Str × α)) (k : Str) (v : α) : List (Str × α) :=
  if m.any (·.1 = k) then m.map (fun e => if e.1 = k then (k, v) else e) else m ++ [(k, v)]

/-- what a value looks like after a trip through `map[string]interface{}` and `json.Marshal`:
object keys sorted, exact duplicates resolved last-wins (numbers keep their literal: `UseNumber`) -/
def canonAny : Nat → Json → Json
  | 0, j => j
  | f+1, .obj kv =>
    let dedup := kv.foldl (fun m (e : Str × Json) => mapStore m e.1 (canonAny f e.2)) ([] : List (Str × Json))
    .obj (sortByKey dedup)
  | f+1, .arr l => .arr (l.map (canonAny f))
  | _, j => j

def jsonSize : Nat → Json → Nat
  | 0, _ => 1
  | f+1, .obj kv => 1 + (kv.map fun e => jsonSize f e.2).sum
  | f+1, .arr l => 1 + (l.map (jsonSize f)).sum
  | _, _ => 1

/-- does free-form data survive `interface{}` (float64) and re-marshalling unchanged in our model?
numbers must be plain integers of at most 15 digits without a leading minus-zero -/
def anySupported : Nat → Json → Bool
  | 0, _ => false
  | _, .num lit =>
    let ds := match lit with | '-' :: r => r | _ => lit
    ds.all Json.isDigit && ds.length ≤ 15 && lit != ['-', '0']
  | f+1, .arr l => l.all (anySupported f)
  | f+1, .obj kv => kv.all (fun e => anySupported f e.2) && (kv.map (·.1)).eraseDups.length == kv.length
  | _, _ => true

/-- a non-zero container in the decode target (only reachable through duplicate keys): Go merges into
it element-wise, which the model does not reproduce -/
def isLoadedContainer : Val → Bool
  | .list (_ :: _) => true
  | .map (_ :: _) => true
  | _ => false

/-! ### unmarshal -/
variable (env : CodecEnv)

mutual
/-- `json.Unmarshal` of one value into a target currently holding `base` -/
def unmarshal : Nat → Ty → Json → Val → Res Val
  | 0, _, _, _ => .unsupported
  | f+1, t, j, base =>
    match t, j with
    -- null: pointers, slices, maps and interfaces become nil; everything else is left alone
    | .ptr _, .null => .ok .nil
    | .slice _, .null => .ok .nil
    | .map _, .null => .ok .nil
    | .any, .null => .ok .nil
    | .bool, .null => .ok base
    | .str, .null => .ok base
    | .int _ _, .null => .ok base
    | .struct _, .null => .ok base
    | .bool, .bool b => .ok (.bool b)
    | .bool, _ => .err
    | .str, .str s => .ok (.str s)
    | .str, _ => .err
    | .int sg bits, .num lit =>
      match litToInt sg bits lit with
      | some v => .ok (.int v)
      | none => .err
    | .int _ _, _ => .err
    | .ptr t', j =>
      match base with
      | .ptr b => do let v ← unmarshal f t' j b; pure (.ptr v)
      | _ => do let v ← unmarshal f t' j (zero t'); pure (.ptr v)
    | .slice t', .arr js =>
      if isLoadedContainer base then .unsupported
      else do let vs ← unmarshalList f t' js; pure (.list vs)
    | .slice _, _ => .err
    | .map t', .obj kv =>
      if isLoadedContainer base then .unsupported
      else do let m ← unmarshalMap f t' kv []; pure (.map m)
    | .map _, _ => .err
    | .struct fs, .obj kv =>
      match base with
      | .struct cur => do let r ← unmarshalFields f fs kv cur; pure (.struct r)
      | _ => .unsupported
    | .struct _, _ => .err
    | .any, j => if anySupported (jsonSize 200 j + 2) j then .ok (.any j) else .unsupported
    -- custom codecs (each is handed the raw value, including `null`)
    | .custom .exportType, .str s =>
      if s = "stream".toList then .ok (.int 1) else if s = "service".toList then .ok (.int 2) else .err
    | .custom .exportType, _ => .err
    | .custom .samplingRate, .str s => if goLower s = "headers".toList then .ok (.int 0) else .err
    | .custom .samplingRate, .num lit =>
      match litToInt true 64 lit with
      | some v => .ok (.int v)
      | none => .err
    | .custom .samplingRate, .null => .ok (.int 0)
    | .custom .samplingRate, _ => .err
    | .custom .scopeType, .str s => if s = "user_scope".toList then .ok (.int 1) else .err
    | .custom .scopeType, _ => .err
    | .custom .cidrList, .null => .ok .nil
    | .custom .cidrList, .arr js =>
      match js.mapM (fun j => match j with | .str s => some s | .null => some [] | _ => none) with
      | some ss => .ok (.list (ss.map .str))
      | none => .err
    | .custom .cidrList, .str s => .ok (.list ((Lists.cidrSet s).map .str))
    | .custom .cidrList, _ => .err
    | .custom .signingKeys, .null =>
      .ok (match base with | .map m => .map m | _ => .map [])
    | .custom .signingKeys, .arr js =>
      let start : List (Str × Val) := match base with | .map m => m | _ => []
      do let m ← unmarshalSigningKeys f js start; pure (.map m)
    | .custom .signingKeys, _ => .err
def unmarshalList : Nat → Ty → List Json → Res (List Val)
  | 0, _, _ => .unsupported
  | _, _, [] => .ok []
  | f+1, t, j :: js => do
    let v ← unmarshal f t j (zero t)
    let vs ← unmarshalList f t js
    pure (v :: vs)
def unmarshalMap : Nat → Ty → List (Str × Json) → List (Str × Val) → Res (List (Str × Val))
  | 0, _, _, _ => .unsupported
  | _, _, [], acc => .ok acc
  | f+1, t, (k, j) :: kv, acc => do
    let v ← unmarshal f t j (zero t)
    unmarshalMap f t kv (mapStore acc k v)
def unmarshalFields : Nat → List (Str × Bool × Ty) → List (Str × Json) → List (Str × Val) → Res (List (Str × Val))
  | 0, _, _, _ => .unsupported
  | _, _, [], cur => .ok cur
  | f+1, fs, (k, j) :: kv, cur =>
    match findField fs k with
    | none => unmarshalFields f fs kv cur
    | some (name, t) =>
      match getField cur name with
      | none => .unsupported
      | some b => do
        let v ← unmarshal f t j b
        unmarshalFields f fs kv (setField cur name v)
/-- `SigningKeys.UnmarshalJSON`'s loop over the intermediate `[]interface{}` -/
def unmarshalSigningKeys : Nat → List Json → List (Str × Val) → Res (List (Str × Val))
  | 0, _, _ => .unsupported
  | _, [], acc => .ok acc
  | f+1, j :: js, acc =>
    match j with
    | .str k => unmarshalSigningKeys f js (mapStore acc k .nil)
    | .obj kv =>
      -- numbers keep their literal here (`UseNumber`, repair D5), so nothing is lost in the intermediate map
      match canonAny 200 (.obj kv) with
      | .obj ckv =>
        match Json.lookup "kind".toList ckv with
        | some (.str s) =>
          if s = "user_scope".toList then do
            let us ← unmarshal f env.userScope (.obj ckv) env.userScopeBase
            match us with
            | .struct ufs =>
              match getField ufs "key".toList with
              | some (.str key) => unmarshalSigningKeys f js (mapStore acc key (.ptr us))
              | _ => .unsupported
            | _ => .unsupported
          else .err
        | _ => .err
      | _ => .unsupported
    | _ => unmarshalSigningKeys f js acc        -- numbers, booleans, null, arrays are skipped
end

/-! ### marshal -/
mutual
def marshal : Nat → Ty → Val → Res Json
  | 0, _, _ => .unsupported
  | f+1, t, v =>
    match t, v with
    | .bool, .bool b => .ok (.bool b)
    | .str, .str s => .ok (.str s)
    | .int _ _, .int i => .ok (.num (intToLit i))
    | .ptr _, .nil => .ok .null
    | .ptr t', .ptr v' => marshal f t' v'
    | .slice _, .nil => .ok .null
    | .slice t', .list vs => do let js ← marshalList f t' vs; pure (.arr js)
    | .map _, .nil => .ok .null
    | .map t', .map kvs => do let m ← marshalMap f t' (sortByKey kvs); pure (.obj m)
    | .struct fs, .struct vals => do let m ← marshalFields f fs vals; pure (.obj m)
    | .any, .nil => .ok .null
    | .any, .any j => .ok (canonAny 200 j)
    | .custom .exportType, .int i =>
      if i = 1 then .ok (.str "stream".toList) else if i = 2 then .ok (.str "service".toList) else .err
    | .custom .samplingRate, .int i =>
      if i = 0 then .ok (.str "headers".toList) else if 1 ≤ i ∧ i ≤ 100 then .ok (.num (intToLit i)) else .err
    | .custom .scopeType, .int i => if i = 1 then .ok (.str "user_scope".toList) else .err
    | .custom .cidrList, .nil => .ok .null
    | .custom .cidrList, .list vs => do let js ← marshalList f .str vs; pure (.arr js)
    | .custom .signingKeys, .nil => .ok .null
    | .custom .signingKeys, .map kvs =>
      if kvs.isEmpty then .ok .null else
      do let js ← marshalSigningKeys f (sortByKey kvs); pure (.arr js)
    | _, _ => .unsupported
def marshalList : Nat → Ty → List Val → Res (List Json)
  | 0, _, _ => .unsupported
  | _, _, [] => .ok []
  | f+1, t, v :: vs => do
    let j ← marshal f t v
    let js ← marshalList f t vs
    pure (j :: js)
def marshalMap : Nat → Ty → List (Str × Val) → Res (List (Str × Json))
  | 0, _, _ => .unsupported
  | _, _, [] => .ok []
  | f+1, t, (k, v) :: kvs => do
    let j ← marshal f t v
    let m ← marshalMap f t kvs
    pure ((k, j) :: m)
def marshalFields : Nat → List (Str × Bool × Ty) → List (Str × Val) → Res (List (Str × Json))
  | 0, _, _ => .unsupported
  | _, [], _ => .ok []
  | f+1, (k, om, t) :: fs, vals =>
    match getField vals k with
    | none => .unsupported
    | some v =>
      if om && isEmptyValue v then marshalFields f fs vals
      else do
        let j ← marshal f t v
        let m ← marshalFields f fs vals
        pure ((k, j) :: m)
def marshalSigningKeys : Nat → List (Str × Val) → Res (List Json)
  | 0, _ => .unsupported
  | _, [] => .ok []
  | f+1, (k, v) :: kvs =>
    match v with
    | .nil => do let js ← marshalSigningKeys f kvs; pure (.str k :: js)
    | .ptr s => do
      let j ← marshal f env.userScope s
      let js ← marshalSigningKeys f kvs
      pure (j :: js)
    | .struct s => do
      let j ← marshal f env.userScope (.struct s)
      let js ← marshalSigningKeys f kvs
      pure (j :: js)
    | _ => .unsupported
end

def fuel : Nat := 100000
/-- the decoder gets more fuel than the encoder: object members may arrive in another order than the encoder
wrote them (the scope objects inside a signing-key set travel through a sorted map), see `slack` in
`JwtModel/Overlay.lean` and the round-trip theorem in `JwtProofs/CodecRT.lean` -/
def decFuel : Nat := 200000

/-- decode a JSON document text into a value of type `t`, starting from `base` -/
def decodeText (t : Ty) (base : Val) (text : Str) : Res Val :=
  match Json.parse text with
  | none => .err
  | some j => unmarshal env decFuel t j base

def encodeText (t : Ty) (v : Val) : Res Str := do
  let j ← marshal env fuel t v
  pure (Json.render j)

/-! ### canonical dump (compared with the harness's reflective dump of the Go value) -/
def hexNib (n : Nat) : Char := if n < 10 then Char.ofNat (48 + n) else Char.ofNat (87 + n)
def utf8Bytes (c : Char) : List Nat :=
  let n := c.toNat
  if n < 0x80 then [n]
  else if n < 0x800 then [0xC0 + n / 64, 0x80 + n % 64]
  else if n < 0x10000 then [0xE0 + n / 4096, 0x80 + n / 64 % 64, 0x80 + n % 64]
  else [0xF0 + n / 262144, 0x80 + n / 4096 % 64, 0x80 + n / 64 % 64, 0x80 + n % 64]
def hexOf (s : Str) : Str := (s.flatMap utf8Bytes).flatMap fun b => [hexNib (b / 16), hexNib (b % 16)]

def intercalateStr (sep : Str) : List Str → Str
  | [] => []
  | [x] => x
  | x :: xs => x ++ sep ++ intercalateStr sep xs

mutual
def dump : Nat → Val → Str
  | 0, _ => ['?']
  | _, .bool b => if b then ['T'] else ['F']
  | _, .str s => 's' :: hexOf s
  | _, .int i => 'i' :: intToLit i
  | _, .nil => ['~']
  | f+1, .ptr v => '&' :: dump f v
  | f+1, .list vs => '[' :: (intercalateStr [','] (dumpList f vs) ++ [']'])
  | f+1, .map kvs => '<' :: (intercalateStr [','] (dumpKVs f (sortByKey kvs)) ++ ['>'])
  | f+1, .struct fs => '{' :: (intercalateStr [','] (dumpKVs f fs) ++ ['}'])
  | _, .any j => 'j' :: hexOf (Json.render (canonAny 200 j))
def dumpList : Nat → List Val → List Str
  | 0, _ => []
  | _, [] => []
  | f+1, v :: vs => dump f v :: dumpList f vs
def dumpKVs : Nat → List (Str × Val) → List Str
  | 0, _ => []
  | _, [] => []
  | f+1, (k, v) :: r => (hexOf k ++ ':' :: dump f v) :: dumpKVs f r
end

end Codec
end Jwt

/-! ### reading a canonical dump back (the harness ships Go values to the driver in this format) -/
namespace Jwt.Codec

def unhexNib (c : Char) : Option Nat :=
  if '0' ≤ c ∧ c ≤ '9' then some (c.toNat - 48)
  else if 'a' ≤ c ∧ c ≤ 'f' then some (c.toNat - 87) else none

/-- leading run of hex digits as bytes -/
def takeHexBytes : Nat → Str → List Nat → List Nat × Str
  | 0, s, acc => (acc.reverse, s)
  | f+1, a :: b :: r, acc =>
    match unhexNib a, unhexNib b with
    | some x, some y => takeHexBytes f r ((x * 16 + y) :: acc)
    | _, _ => (acc.reverse, a :: b :: r)
  | _, s, acc => (acc.reverse, s)

def utf8DecodeLoose : Nat → List Nat → Str → Option Str
  | 0, _, _ => none
  | _, [], acc => some acc.reverse
  | f+1, b :: r, acc =>
    if b < 0x80 then utf8DecodeLoose f r (Char.ofNat b :: acc)
    else if b < 0xE0 then
      match r with
      | b1 :: r' => utf8DecodeLoose f r' (Char.ofNat ((b - 0xC0) * 64 + (b1 - 0x80)) :: acc)
      | _ => none
    else if b < 0xF0 then
      match r with
      | b1 :: b2 :: r' => utf8DecodeLoose f r' (Char.ofNat ((b - 0xE0) * 4096 + (b1 - 0x80) * 64 + (b2 - 0x80)) :: acc)
      | _ => none
    else
      match r with
      | b1 :: b2 :: b3 :: r' => utf8DecodeLoose f r' (Char.ofNat ((b - 0xF0) * 262144 + (b1 - 0x80) * 4096 + (b2 - 0x80) * 64 + (b3 - 0x80)) :: acc)
      | _ => none

def takeHexStr (s : Str) : Option (Str × Str) :=
  let (bs, rest) := takeHexBytes (s.length + 1) s []
  match utf8DecodeLoose (bs.length + 1) bs [] with
  | some str => some (str, rest)
  | none => none

mutual
def undumpVal : Nat → Str → Option (Val × Str)
  | 0, _ => none
  | _, [] => none
  | f+1, c :: r =>
    if c = 'T' then some (.bool true, r)
    else if c = 'F' then some (.bool false, r)
    else if c = '~' then some (.nil, r)
    else if c = 's' then (match takeHexStr r with | some (s, r') => some (.str s, r') | none => none)
    else if c = 'i' then
      let (neg, r1) := match r with | '-' :: t => (true, t) | _ => (false, r)
      let ds := r1.takeWhile Json.isDigit
      if ds.isEmpty then none
      else
        let n : Int := digitsToNat ds
        some (.int (if neg then -n else n), r1.dropWhile Json.isDigit)
    else if c = '&' then (match undumpVal f r with | some (v, r') => some (.ptr v, r') | none => none)
    else if c = 'j' then
      (match takeHexStr r with
       | some (s, r') => (match Json.parse s with | some j => some (.any j, r') | none => none)
       | none => none)
    else if c = '[' then
      (match r with
       | ']' :: r' => some (.list [], r')
       | _ => match undumpVal f r with
              | some (v, r1) => (match undumpTail f r1 with
                                 | some (vs, r2) => some (.list (v :: vs), r2)
                                 | none => none)
              | none => none)
    else if c = '<' then
      (match r with
       | '>' :: r' => some (.map [], r')
       | _ => match undumpKV f r with
              | some (kv, r1) => (match undumpKVTail f '>' r1 with
                                  | some (kvs, r2) => some (.map (kv :: kvs), r2)
                                  | none => none)
              | none => none)
    else if c = '{' then
      (match r with
       | '}' :: r' => some (.struct [], r')
       | _ => match undumpKV f r with
              | some (kv, r1) => (match undumpKVTail f '}' r1 with
                                  | some (kvs, r2) => some (.struct (kv :: kvs), r2)
                                  | none => none)
              | none => none)
    else none
def undumpTail : Nat → Str → Option (List Val × Str)
  | 0, _ => none
  | f+1, input =>
    match input with
    | ']' :: r => some ([], r)
    | ',' :: r => (match undumpVal f r with
                   | some (v, r1) => (match undumpTail f r1 with
                                      | some (vs, r2) => some (v :: vs, r2)
                                      | none => none)
                   | none => none)
    | _ => none
def undumpKV : Nat → Str → Option ((Str × Val) × Str)
  | 0, _ => none
  | f+1, input =>
    match takeHexStr input with
    | some (k, ':' :: r) => (match undumpVal f r with | some (v, r') => some ((k, v), r') | none => none)
    | _ => none
def undumpKVTail : Nat → Char → Str → Option (List (Str × Val) × Str)
  | 0, _, _ => none
  | f+1, close, input =>
    match input with
    | c :: r =>
      if c = close then some ([], r)
      else if c = ',' then
        (match undumpKV f r with
         | some (kv, r1) => (match undumpKVTail f close r1 with
                             | some (kvs, r2) => some (kv :: kvs, r2)
                             | none => none)
         | none => none)
      else none
    | [] => none
end

def undump (s : Str) : Option Val :=
  match undumpVal (s.length + 2) s with
  | some (v, []) => some v
  | _ => none

end Jwt.Codec
