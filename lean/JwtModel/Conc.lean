/-!
# Footprints and interleavings (the part of C17 a model can carry)

A thread is a list of micro-steps, each a heap transformer with a declared read set and write set that it
respects (`frame`, `dep`). Independence is Bernstein's condition; a conflict is what the race detector calls a
data race. No claim is made here about the Go memory model or the scheduler.
-/
namespace Jwt.Conc
variable {Loc Val : Type}

abbrev Heap (Loc Val : Type) := Loc → Val

/-- a micro-step: a heap transformer with a declared read set `R` and write set `W` -/
structure Step (Loc Val : Type) where
  R : Loc → Prop
  W : Loc → Prop
  f : Heap Loc Val → Heap Loc Val
  /-- writes only inside W -/
  frame : ∀ h l, ¬ W l → f h l = h l
  /-- what it writes depends only on what it may read (R ∪ W) -/
  dep : ∀ h h', (∀ l, R l ∨ W l → h l = h' l) → ∀ l, W l → f h l = f h' l

/-- Bernstein independence: neither writes what the other reads or writes -/
def Indep (a b : Step Loc Val) : Prop :=
  (∀ l, a.W l → ¬ (b.R l ∨ b.W l)) ∧ (∀ l, b.W l → ¬ (a.R l ∨ a.W l))

/-- a data race between two steps = a location one writes and the other reads or writes -/
def Conflict (a b : Step Loc Val) : Prop := ∃ l, (a.W l ∧ (b.R l ∨ b.W l)) ∨ (b.W l ∧ (a.R l ∨ a.W l))

def exec (s : List (Step Loc Val)) (h : Heap Loc Val) : Heap Loc Val := s.foldl (fun h st => st.f h) h

/-- all interleavings of two threads (program order kept inside each) -/
inductive Interleave : List (Step Loc Val) → List (Step Loc Val) → List (Step Loc Val) → Prop
  | nil : Interleave [] [] []
  | left {a t1 t2 s} : Interleave t1 t2 s → Interleave (a :: t1) t2 (a :: s)
  | right {b t1 t2 s} : Interleave t1 t2 s → Interleave t1 (b :: t2) (b :: s)


/-- all interleavings of any number of threads (program order kept inside each) -/
inductive InterleaveN : List (List (Step Loc Val)) → List (Step Loc Val) → Prop
  | done {ths} : (∀ t ∈ ths, t = []) → InterleaveN ths []
  | pick {pre post t b s} : InterleaveN (pre ++ t :: post) s → InterleaveN (pre ++ (b :: t) :: post) (b :: s)

/-- threads are pairwise independent: no step of one writes what a step of another reads or writes -/
def PairwiseIndep (ths : List (List (Step Loc Val))) : Prop :=
  ths.Pairwise (fun t u => ∀ a ∈ t, ∀ b ∈ u, Indep a b)

end Jwt.Conc
