/-!
# Text plumbing: Go `string` as `List Char`

`Str` models a Go string that is valid UTF-8 (every property quantifies over those).
`splitOn`/`join` model `strings.Split`/`strings.Join` for a one-character separator.
-/
namespace Jwt

abbrev Str := List Char

/-- `strings.Split(s, sep)` for a one-character separator: never returns the empty list. -/
def splitOn (sep : Char) : Str → List Str
  | [] => [[]]
  | c :: cs =>
    if c = sep then [] :: splitOn sep cs
    else match splitOn sep cs with
      | t :: ts => (c :: t) :: ts
      | [] => [[c]]   -- unreachable (`splitOn_ne_nil`)

/-- `strings.Join(ts, sep)` for a one-character separator. -/
def join (sep : Char) : List Str → Str
  | [] => []
  | [t] => t
  | t :: ts => t ++ sep :: join sep ts

/-- `strings.HasPrefix(s, pat)` as `isPrefixB pat s` -/
def isPrefixB : Str → Str → Bool
  | [], _ => true
  | _ :: _, [] => false
  | p :: ps, c :: cs => p = c && isPrefixB ps cs

/-- `strings.Contains(s, pat)` as `isInfixB pat s` -/
def isInfixB (pat : Str) : Str → Bool
  | [] => isPrefixB pat []
  | c :: cs => isPrefixB pat (c :: cs) || isInfixB pat cs

/-- `strings.HasSuffix(s, pat)` as `isSuffixB pat s` -/
def isSuffixB (pat s : Str) : Bool := isPrefixB pat.reverse s.reverse

/-- Go's `unicode.IsSpace` (what `strings.TrimSpace` strips). -/
def isGoSpace (c : Char) : Bool :=
  let n := c.toNat
  n = 0x20 || (0x09 ≤ n && n ≤ 0x0d) || n = 0x85 || n = 0xa0 || n = 0x1680 ||
  (0x2000 ≤ n && n ≤ 0x200a) || n = 0x2028 || n = 0x2029 || n = 0x202f || n = 0x205f || n = 0x3000

def trimLeft (s : Str) : Str := s.dropWhile isGoSpace
def trimRight (s : Str) : Str := (s.reverse.dropWhile isGoSpace).reverse
/-- `strings.TrimSpace` -/
def trimSpace (s : Str) : Str := trimRight (trimLeft s)

/-- `strings.ToLower` on the modelled alphabet: ASCII, plus the two code points whose lower-case
mapping lands in ASCII (U+212A KELVIN SIGN → k, U+0130 → i). Other non-ASCII cased letters are
outside the alphabet the generators use for case-folded comparisons. -/
def goLowerChar (c : Char) : Char :=
  if c.toNat = 0x212a then 'k'
  else if c.toNat = 0x130 then 'i'
  else c.toLower
def goLower (s : Str) : Str := s.map goLowerChar

/-- `strings.ToUpper` on the same alphabet (U+017F LONG S → S, U+0131 DOTLESS I → I). -/
def goUpperChar (c : Char) : Char :=
  if 'a' ≤ c ∧ c ≤ 'z' then Char.ofNat (c.toNat - 32)
  else if c.toNat = 0x17f then 'S'
  else if c.toNat = 0x131 then 'I'
  else c
def goUpper (s : Str) : Str := s.map goUpperChar

/-- UTF-8 encoded length of a code point (Go `len(string)` counts bytes). -/
def utf8Width (c : Char) : Nat :=
  if c.toNat < 0x80 then 1 else if c.toNat < 0x800 then 2 else if c.toNat < 0x10000 then 3 else 4
def utf8Len (s : Str) : Nat := (s.map utf8Width).sum

end Jwt
