import Props.C16
