import JwtModel
/-! Correspondence driver: reads operations on stdin, prints the model's answer per line. -/
open Jwt Jwt.Wire Jwt.Drive

def handle (fields : List String) : String :=
  match handleBasic fields with
  | some r => r
  | none =>
    match handleDecode fields with
    | some r => r
    | none =>
      match handleEncode fields with
      | some r => r
      | none =>
        match handleValidate fields with
        | some r => r
        | none =>
          match handleScope fields with
          | some r => r
          | none =>
            match handleV1 fields with
            | some r => r
            | none => "bad-op"

partial def loop (h : IO.FS.Stream) (out : IO.FS.Stream) : IO Unit := do
  let line ← h.getLine
  if line.isEmpty then return ()
  let line := if line.endsWith "\n" then (line.dropEnd 1).toString else line
  out.putStrLn (handle (line.splitOn "\t"))
  loop h out

def main : IO Unit := do
  let out ← IO.getStdout
  loop (← IO.getStdin) out
  out.flush
