import JwtModel
/-! Correspondence driver: reads operations on stdin, prints the model's answer per line. -/
open Jwt Jwt.Wire

def handle (fields : List String) : String :=
  match fields with
  | ["contained", p, q] =>
    match unhexStr p, unhexStr q with
    | some p, some q => boolStr (isContainedIn p q)
    | _, _ => "unsupported"
  | ["wild", p] =>
    match unhexStr p with
    | some p => boolStr (hasWildCards p)
    | none => "unsupported"
  | ["wildcount", p] =>
    match unhexStr p with
    | some p => toString (countTokenWildcards p)
    | none => "unsupported"
  | _ => "bad-op"

partial def loop (h : IO.FS.Stream) (out : IO.FS.Stream) : IO Unit := do
  let line ← h.getLine
  if line.isEmpty then return ()
  let line := if line.endsWith "\n" then (line.dropEnd 1).toString else line
  out.putStrLn (handle (line.splitOn "\t"))
  loop h out

def main : IO Unit := do
  let out ← IO.getStdout
  loop (← IO.getStdin) out
  out.flush
