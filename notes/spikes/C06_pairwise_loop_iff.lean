/-! Spike for C06 (rows EL1/ML1): the nested index loops of `isContainedIn(kind, subjects)` find a pair
    exactly when two *different positions* hold subjects one of which is contained in the other. -/
namespace Pair
variable {α : Type}

/-- Go: `for i, ns := range xs { for j, s := range xs { if i == j {continue}; if c(ns, s) { found } } }` -/
def anyPair (c : α → α → Bool) (xs : List α) : Bool :=
  xs.zipIdx.any (fun p => xs.zipIdx.any (fun q => p.2 != q.2 && c p.1 q.1))

theorem anyPair_iff (c : α → α → Bool) (xs : List α) :
    anyPair c xs = true ↔
      ∃ (i j : Nat) (hi : i < xs.length) (hj : j < xs.length), i ≠ j ∧ c xs[i] xs[j] = true := by
  simp only [anyPair, List.any_eq_true, Bool.and_eq_true, bne_iff_ne, ne_eq]
  constructor
  · rintro ⟨⟨a, i⟩, hp, ⟨b, j⟩, hq, hne, hc⟩
    rw [List.mem_zipIdx_iff_getElem?] at hp hq
    simp only at hp hq hne hc
    obtain ⟨hi, hai⟩ := List.getElem?_eq_some_iff.mp hp
    obtain ⟨hj, hbj⟩ := List.getElem?_eq_some_iff.mp hq
    exact ⟨i, j, hi, hj, hne, by rw [hai, hbj]; exact hc⟩
  · rintro ⟨i, j, hi, hj, hne, hc⟩
    refine ⟨(xs[i], i), ?_, (xs[j], j), ?_, hne, hc⟩
    · rw [List.mem_zipIdx_iff_getElem?]; simp [hi]
    · rw [List.mem_zipIdx_iff_getElem?]; simp [hj]

#print axioms anyPair_iff
end Pair
