/-! Spike: decimal rendering of integers and parsing back (JSON number layer for int fields). -/
namespace Dec

def digitChar : Nat → Char
  | 0 => '0' | 1 => '1' | 2 => '2' | 3 => '3' | 4 => '4'
  | 5 => '5' | 6 => '6' | 7 => '7' | 8 => '8' | _ => '9'
def digitVal : Char → Nat
  | '0' => 0 | '1' => 1 | '2' => 2 | '3' => 3 | '4' => 4
  | '5' => 5 | '6' => 6 | '7' => 7 | '8' => 8 | '9' => 9 | _ => 0
def isDigit (c : Char) : Bool := c = '0' || c = '1' || c = '2' || c = '3' || c = '4' ||
  c = '5' || c = '6' || c = '7' || c = '8' || c = '9'

theorem digit_facts : ∀ d : Fin 10, digitVal (digitChar d.1) = d.1 ∧ isDigit (digitChar d.1) = true := by decide

def renderNat (n : Nat) : List Char :=
  if n < 10 then [digitChar n] else renderNat (n / 10) ++ [digitChar (n % 10)]
termination_by n
decreasing_by omega

def parseNatAux : List Char → Nat → Nat
  | [], acc => acc
  | c :: cs, acc => parseNatAux cs (acc * 10 + digitVal c)

def parseNat (s : List Char) : Option Nat :=
  if s ≠ [] ∧ s.all isDigit = true then some (parseNatAux s 0) else none

theorem parseNatAux_snoc (a : List Char) (c : Char) (acc : Nat) :
    parseNatAux (a ++ [c]) acc = parseNatAux a acc * 10 + digitVal c := by
  induction a generalizing acc with
  | nil => rfl
  | cons x xs ih => simp [parseNatAux, ih]

theorem renderNat_spec (n : Nat) :
    parseNatAux (renderNat n) 0 = n ∧ (∀ c ∈ renderNat n, isDigit c = true) ∧ renderNat n ≠ [] := by
  induction n using Nat.strongRecOn with
  | _ n ih =>
    rw [renderNat]
    by_cases h : n < 10
    · have := digit_facts ⟨n, h⟩
      simp only [h, if_true]
      refine ⟨by simp [parseNatAux, this.1], ?_, by simp⟩
      intro c hc; simp at hc; subst hc; exact this.2
    · simp only [h, if_false]
      have hlt : n / 10 < n := by omega
      obtain ⟨h1, h2, h3⟩ := ih (n / 10) hlt
      have hd := digit_facts ⟨n % 10, by omega⟩
      refine ⟨?_, ?_, by simp⟩
      · rw [parseNatAux_snoc, h1, hd.1]; simp only; omega
      · intro c hc
        simp only [List.mem_append, List.mem_singleton] at hc
        rcases hc with hc | hc
        · exact h2 c hc
        · subst hc; exact hd.2

theorem parse_render_nat (n : Nat) : parseNat (renderNat n) = some n := by
  obtain ⟨h1, h2, h3⟩ := renderNat_spec n
  simp [parseNat, h3, List.all_eq_true.mpr h2, h1]

-- integers: Go renders a leading '-' for negatives
def renderInt (i : Int) : List Char :=
  if i < 0 then '-' :: renderNat i.natAbs else renderNat i.natAbs
def parseInt : List Char → Option Int
  | '-' :: r => (parseNat r).map (fun n => - (n : Int))
  | s => (parseNat s).map (fun n => (n : Int))

theorem renderNat_head_not_minus (n : Nat) : ∀ r, renderNat n ≠ '-' :: r := by
  intro r h
  obtain ⟨_, h2, _⟩ := renderNat_spec n
  have := h2 '-' (by rw [h]; simp)
  simp [isDigit] at this

theorem parse_render_int (i : Int) : parseInt (renderInt i) = some i := by
  by_cases h : i < 0
  · simp only [renderInt, h, if_true, parseInt, parse_render_nat, Option.map_some]
    have h' : i < 0 := h
    have hn : ((i.natAbs : Nat) : Int) = -i := by omega
    simp [hn]
  · simp only [renderInt, h, if_false]
    cases hr : renderNat i.natAbs with
    | nil => exact absurd hr (renderNat_spec _).2.2
    | cons c cs =>
      have hc : c ≠ '-' := by
        intro e; subst e; exact renderNat_head_not_minus _ _ hr
      have : parseInt (c :: cs) = (parseNat (c :: cs)).map (fun n => (n : Int)) := by
        simp only [parseInt]
        split
        · rename_i heq; simp at heq; exact absurd heq.1 hc
        · rfl
      rw [this, ← hr, parse_render_nat]
      simp; omega

#print axioms parse_render_int
end Dec
