inductive Json where
  | null | bool (b : Bool) | num (n : Int) | str (s : List Char)
  | arr (l : List Json) | obj (kv : List (List Char × Json))

inductive Ty where
  | int | bool | str
  | ptr (t : Ty) | slice (t : Ty)
  | struct (fs : List (List Char × Bool × Ty))

inductive Val where
  | int (n : Int) | bool (b : Bool) | str (s : List Char)
  | ptr (o : Option Val) | slice (o : Option (List Val))
  | struct (fs : List Val)

def isEmptyVal : Val → Bool
  | .int n => n == 0 | .bool b => !b | .str s => s.isEmpty
  | .ptr o => o.isNone
  | .slice none => true | .slice (some l) => l.isEmpty
  | .struct _ => false

mutual
def marshal : Ty → Val → Option Json
  | .int, .int n => some (.num n)
  | .bool, .bool b => some (.bool b)
  | .str, .str s => some (.str s)
  | .ptr _, .ptr none => some .null
  | .ptr t, .ptr (some v) => marshal t v
  | .slice _, .slice none => some .null
  | .slice t, .slice (some l) => (marshalList t l).map .arr
  | .struct fs, .struct vs => (marshalFields fs vs).map .obj
  | _, _ => none
def marshalList : Ty → List Val → Option (List Json)
  | _, [] => some []
  | t, v :: vs => do
      let j ← marshal t v
      let js ← marshalList t vs
      pure (j :: js)
def marshalFields : List (List Char × Bool × Ty) → List Val → Option (List (List Char × Json))
  | [], [] => some []
  | (k, om, t) :: fs, v :: vs => do
      let rest ← marshalFields fs vs
      if om && isEmptyVal v then pure rest else
      let j ← marshal t v
      pure ((k, j) :: rest)
  | _, _ => none
end

mutual
def zero : Ty → Val
  | .int => .int 0 | .bool => .bool false | .str => .str []
  | .ptr _ => .ptr none | .slice _ => .slice none
  | .struct fs => .struct (zeroFields fs)
def zeroFields : List (List Char × Bool × Ty) → List Val
  | [] => []
  | (_, _, t) :: fs => zero t :: zeroFields fs
end

def lookupKey (k : List Char) : List (List Char × Json) → Option Json
  | [] => none
  | (k', j) :: rest => match lookupKey k rest with   -- last wins
      | some j' => some j'
      | none => if k' == k then some j else none

mutual
def unmarshal : Ty → Json → Option Val
  | .int, .num n => some (.int n)
  | .int, .null => some (.int 0)
  | .bool, .bool b => some (.bool b)
  | .str, .str s => some (.str s)
  | .ptr _, .null => some (.ptr none)
  | .ptr t, j => (unmarshal t j).map (fun v => .ptr (some v))
  | .slice _, .null => some (.slice none)
  | .slice t, .arr l => (unmarshalList t l).map (fun vs => .slice (some vs))
  | .struct fs, .obj kv => (unmarshalFields fs kv).map .struct
  | _, _ => none
def unmarshalList : Ty → List Json → Option (List Val)
  | _, [] => some []
  | t, j :: js => do
      let v ← unmarshal t j
      let vs ← unmarshalList t js
      pure (v :: vs)
def unmarshalFields : List (List Char × Bool × Ty) → List (List Char × Json) → Option (List Val)
  | [], _ => some []
  | (k, _, t) :: fs, kv => do
      let v ← match lookupKey k kv with
        | none => pure (zero t)
        | some j => unmarshal t j
      let vs ← unmarshalFields fs kv
      pure (v :: vs)
end
#print axioms unmarshal
#eval (marshal (.struct [(['a'], true, .int), (['b'], false, .slice .str)]) (.struct [.int 0, .slice (some [.str ['x']])])).isSome

#check @marshal.induct
#check @marshal.mutual_induct
#check @zero.mutual_induct

-- tiny test lemma: marshal of zero value of a type always succeeds
mutual
theorem marshal_zero_isSome : ∀ t, (marshal t (zero t)).isSome
  | .int => by simp [marshal, zero]
  | .bool => by simp [marshal, zero]
  | .str => by simp [marshal, zero]
  | .ptr _ => by simp [marshal, zero]
  | .slice _ => by simp [marshal, zero]
  | .struct fs => by
      have := marshalFields_zero_isSome fs
      simp [marshal, zero]
      cases h : marshalFields fs (zeroFields fs) with
      | none => simp [h] at this
      | some x => simp
theorem marshalFields_zero_isSome : ∀ fs, (marshalFields fs (zeroFields fs)).isSome
  | [] => by simp [marshalFields, zeroFields]
  | (k, om, t) :: fs => by
      have h1 := marshal_zero_isSome t
      have h2 := marshalFields_zero_isSome fs
      simp only [marshalFields, zeroFields]
      cases h : marshalFields fs (zeroFields fs) with
      | none => simp [h] at h2
      | some r =>
        cases h' : marshal t (zero t) with
        | none => simp [h'] at h1
        | some j => simp; split <;> simp
end
#print axioms marshal_zero_isSome
