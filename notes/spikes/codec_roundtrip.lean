/-! Spike: tree-level round trip for a schema-generic struct codec with omitempty + key lookup. -/
inductive Json where
  | null | bool (b : Bool) | num (n : Int) | str (s : List Char)
  | arr (l : List Json) | obj (kv : List (List Char × Json))

inductive Ty where
  | int | bool | str
  | ptr (t : Ty) | slice (t : Ty)
  | struct (fs : List (List Char × Bool × Ty))

inductive Val where
  | int (n : Int) | bool (b : Bool) | str (s : List Char)
  | ptr (o : Option Val) | slice (o : Option (List Val))
  | struct (fs : List Val)

abbrev Fields := List (List Char × Bool × Ty)

def isEmptyVal : Val → Bool
  | .int n => n == 0 | .bool b => !b | .str s => s.isEmpty
  | .ptr o => o.isNone
  | .slice none => true | .slice (some l) => l.isEmpty
  | .struct _ => false

mutual
def marshal : Ty → Val → Option Json
  | .int, .int n => some (.num n)
  | .bool, .bool b => some (.bool b)
  | .str, .str s => some (.str s)
  | .ptr _, .ptr none => some .null
  | .ptr t, .ptr (some v) => marshal t v
  | .slice _, .slice none => some .null
  | .slice t, .slice (some l) => (marshalList t l).map .arr
  | .struct fs, .struct vs => (marshalFields fs vs).map .obj
  | _, _ => none
def marshalList : Ty → List Val → Option (List Json)
  | _, [] => some []
  | t, v :: vs =>
      match marshal t v, marshalList t vs with
      | some j, some js => some (j :: js)
      | _, _ => none
def marshalFields : Fields → List Val → Option (List (List Char × Json))
  | [], [] => some []
  | (k, om, t) :: fs, v :: vs =>
      match marshalFields fs vs with
      | none => none
      | some rest =>
        if om && isEmptyVal v then some rest else
        match marshal t v with
        | none => none
        | some j => some ((k, j) :: rest)
  | _, _ => none
end

mutual
def zero : Ty → Val
  | .int => .int 0 | .bool => .bool false | .str => .str []
  | .ptr _ => .ptr none | .slice _ => .slice none
  | .struct fs => .struct (zeroFields fs)
def zeroFields : Fields → List Val
  | [] => []
  | (_, _, t) :: fs => zero t :: zeroFields fs
end

/-- first match (keys are distinct in the cases we care about) -/
def lookupKey (k : List Char) : List (List Char × Json) → Option Json
  | [] => none
  | (k', j) :: rest => if k' = k then some j else lookupKey k rest

mutual
def unmarshal : Ty → Json → Option Val
  | .int, .num n => some (.int n)
  | .bool, .bool b => some (.bool b)
  | .str, .str s => some (.str s)
  | .ptr _, .null => some (.ptr none)
  | .ptr t, j => (unmarshal t j).map (fun v => .ptr (some v))
  | .slice _, .null => some (.slice none)
  | .slice t, .arr l => (unmarshalList t l).map (fun vs => .slice (some vs))
  | .struct fs, .obj kv => (unmarshalFields fs kv).map .struct
  | _, _ => none
def unmarshalList : Ty → List Json → Option (List Val)
  | _, [] => some []
  | t, j :: js =>
      match unmarshal t j, unmarshalList t js with
      | some v, some vs => some (v :: vs)
      | _, _ => none
def unmarshalFields : Fields → List (List Char × Json) → Option (List Val)
  | [], _ => some []
  | (k, _, t) :: fs, kv =>
      match (match lookupKey k kv with
             | none => some (zero t)
             | some j => unmarshal t j), unmarshalFields fs kv with
      | some v, some vs => some (v :: vs)
      | _, _ => none
end

-- normal form: what a field looks like after a round trip
mutual
def norm : Ty → Val → Val
  | .ptr t, .ptr (some v) => .ptr (some (norm t v))
  | .slice t, .slice (some l) => .slice (some (normList t l))
  | .struct fs, .struct vs => .struct (normFields fs vs)
  | _, v => v
def normList : Ty → List Val → List Val
  | _, [] => []
  | t, v :: vs => norm t v :: normList t vs
def normFields : Fields → List Val → List Val
  | (_, om, t) :: fs, v :: vs =>
      (if om && isEmptyVal v then zero t else norm t v) :: normFields fs vs
  | _, _ => []
end

-- schema well-formedness: pointers only to structs; struct keys pairwise distinct
mutual
def okTy : Ty → Bool
  | .ptr (.struct fs) => okFields fs
  | .ptr _ => false
  | .slice t => okTy t
  | .struct fs => okFields fs
  | _ => true
def okFields : Fields → Bool
  | [] => true
  | (k, _, t) :: fs => okTy t && !(fs.any (fun f => f.1 = k)) && okFields fs
end

theorem lookup_absent (k : List Char) :
    ∀ (fs : Fields) (vs : List Val) (kv), marshalFields fs vs = some kv →
      (fs.any (fun f => f.1 = k)) = false → lookupKey k kv = none := by
  intro fs
  induction fs with
  | nil => intro vs kv h _; cases vs <;> simp [marshalFields] at h; subst h; rfl
  | cons f fs ih =>
    obtain ⟨k', om, t⟩ := f
    intro vs kv h hk
    cases vs with
    | nil => simp [marshalFields] at h
    | cons v vs =>
      simp only [List.any_cons, Bool.or_eq_false_iff, decide_eq_false_iff_not] at hk
      simp only [marshalFields] at h
      cases hr : marshalFields fs vs with
      | none => simp [hr] at h
      | some rest =>
        simp only [hr] at h
        have ihr := ih vs rest hr hk.2
        by_cases he : (om && isEmptyVal v) = true
        · simp only [he, if_true] at h; cases h; exact ihr
        · simp only [he] at h
          cases hm : marshal t v with
          | none => simp [hm] at h
          | some j =>
            simp [hm] at h; subst h
            simp [lookupKey, hk.1, ihr]

#print axioms lookup_absent

def LookupsOK (kvAll : List (List Char × Json)) : Fields → List Val → Prop
  | (k, om, t) :: fs, v :: vs =>
      (if (om && isEmptyVal v) = true then lookupKey k kvAll = none
       else ∃ j, marshal t v = some j ∧ lookupKey k kvAll = some j) ∧ LookupsOK kvAll fs vs
  | [], [] => True
  | _, _ => False

theorem lookupsOK_cons (k : List Char) (j : Json) (rest) :
    ∀ (fs : Fields) (vs : List Val), (fs.any (fun f => f.1 = k)) = false →
      LookupsOK rest fs vs → LookupsOK ((k, j) :: rest) fs vs := by
  intro fs
  induction fs with
  | nil => intro vs _ h; cases vs <;> simp_all [LookupsOK]
  | cons f fs ih =>
    obtain ⟨k', om, t⟩ := f
    intro vs hk h
    cases vs with
    | nil => simp [LookupsOK] at h
    | cons v vs =>
      simp only [List.any_cons, Bool.or_eq_false_iff, decide_eq_false_iff_not] at hk
      simp only [LookupsOK] at h ⊢
      have hne : ¬ k = k' := fun e => hk.1 e.symm
      refine ⟨?_, ih vs hk.2 h.2⟩
      by_cases he : (om && isEmptyVal v) = true
      · simp only [he, if_true] at h ⊢
        simp [lookupKey, hne, h.1]
      · simp only [he] at h ⊢
        obtain ⟨⟨j', hj1, hj2⟩, _⟩ := h
        exact ⟨j', hj1, by simp [lookupKey, hne, hj2]⟩

theorem okFields_tail {f} {fs : Fields} (h : okFields (f :: fs) = true) :
    okTy f.2.2 = true ∧ (fs.any (fun g => g.1 = f.1)) = false ∧ okFields fs = true := by
  obtain ⟨k, om, t⟩ := f
  simp [okFields] at h
  exact ⟨h.1.1, by simpa using h.1.2, h.2⟩

theorem marshalFields_lookups :
    ∀ (fs : Fields) (vs : List Val) (kv), okFields fs = true →
      marshalFields fs vs = some kv → LookupsOK kv fs vs := by
  intro fs
  induction fs with
  | nil => intro vs kv _ h; cases vs <;> simp [marshalFields] at h; simp [LookupsOK]
  | cons f fs ih =>
    intro vs kv hok h
    have ⟨_, hk, hokt⟩ := okFields_tail hok
    obtain ⟨k, om, t⟩ := f
    cases vs with
    | nil => simp [marshalFields] at h
    | cons v vs =>
      simp only [marshalFields] at h
      cases hr : marshalFields fs vs with
      | none => simp [hr] at h
      | some rest =>
        simp only [hr] at h
        have ihr := ih vs rest hokt hr
        simp only [LookupsOK]
        by_cases he : (om && isEmptyVal v) = true
        · simp only [he, if_true] at h ⊢
          have hkv : rest = kv := by simpa using h
          subst hkv
          exact ⟨lookup_absent k fs vs rest hr hk, ihr⟩
        · simp only [he] at h ⊢
          cases hm : marshal t v with
          | none => simp [hm] at h
          | some j =>
            simp [hm] at h; subst h
            exact ⟨⟨j, rfl, by simp [lookupKey]⟩, lookupsOK_cons k j rest fs vs hk ihr⟩

theorem marshal_struct_obj {fs vs j} (h : marshal (.struct fs) v = some j) (hv : v = .struct vs) :
    ∃ kv, j = .obj kv ∧ marshalFields fs vs = some kv := by
  subst hv
  simp only [marshal, Option.map_eq_some_iff] at h
  obtain ⟨kv, h1, h2⟩ := h
  exact ⟨kv, h2.symm, h1⟩

mutual
theorem rt : ∀ (t : Ty) (v : Val) (j : Json), okTy t = true → marshal t v = some j →
    unmarshal t j = some (norm t v)
  | .int, v, j, _, h => by cases v <;> simp [marshal] at h; subst h; simp [unmarshal, norm]
  | .bool, v, j, _, h => by cases v <;> simp [marshal] at h; subst h; simp [unmarshal, norm]
  | .str, v, j, _, h => by cases v <;> simp [marshal] at h; subst h; simp [unmarshal, norm]
  | .slice t, v, j, hok, h => by
      cases v with
      | slice o =>
        cases o with
        | none => simp [marshal] at h; subst h; simp [unmarshal, norm]
        | some l =>
          simp only [marshal, Option.map_eq_some_iff] at h
          obtain ⟨js, h1, h2⟩ := h
          subst h2
          have := rtl t l js (by simpa [okTy] using hok) h1
          simp [unmarshal, this, norm]
      | _ => simp [marshal] at h
  | .struct fs, v, j, hok, h => by
      cases v with
      | struct vs =>
        obtain ⟨kv, hj, hm⟩ := marshal_struct_obj h rfl
        subst hj
        have hokf : okFields fs = true := by simpa [okTy] using hok
        have := rtf fs vs kv hokf (marshalFields_lookups fs vs kv hokf hm)
        simp [unmarshal, this, norm]
      | _ => simp [marshal] at h
  | .ptr t, v, j, hok, h => by
      cases t with
      | struct fs =>
        cases v with
        | ptr o =>
          cases o with
          | none => simp [marshal] at h; subst h; simp [unmarshal, norm]
          | some w =>
            simp only [marshal] at h
            cases w with
            | struct vs =>
              obtain ⟨kv, hj, hm⟩ := marshal_struct_obj h rfl
              subst hj
              have hokf : okFields fs = true := by simpa [okTy] using hok
              have := rtf fs vs kv hokf (marshalFields_lookups fs vs kv hokf hm)
              simp [unmarshal, this, norm]
            | _ => simp [marshal] at h
        | _ => simp [marshal] at h
      | _ => simp [okTy] at hok
theorem rtl : ∀ (t : Ty) (l : List Val) (js : List Json), okTy t = true → marshalList t l = some js →
    unmarshalList t js = some (normList t l)
  | t, [], js, _, h => by simp [marshalList] at h; subst h; simp [unmarshalList, normList]
  | t, v :: vs, js, hok, h => by
      simp only [marshalList] at h
      cases h1 : marshal t v with
      | none => simp [h1] at h
      | some j =>
        cases h2 : marshalList t vs with
        | none => simp [h1, h2] at h
        | some js' =>
          simp [h1, h2] at h; subst h
          have a := rt t v j hok h1
          have b := rtl t vs js' hok h2
          simp [unmarshalList, a, b, normList]
theorem rtf : ∀ (fs : Fields) (vs : List Val) (kvAll : List (List Char × Json)), okFields fs = true →
    LookupsOK kvAll fs vs → unmarshalFields fs kvAll = some (normFields fs vs)
  | [], vs, kvAll, _, h => by
      cases vs with
      | nil => simp [unmarshalFields, normFields]
      | cons _ _ => simp [LookupsOK] at h
  | (k, om, t) :: fs, vs, kvAll, hok, h => by
      cases vs with
      | nil => simp [LookupsOK] at h
      | cons v vs =>
        have ⟨hokt, _, hokf⟩ := okFields_tail hok
        simp only [LookupsOK] at h
        have ih := rtf fs vs kvAll hokf h.2
        by_cases he : (om && isEmptyVal v) = true
        · simp only [he, if_true] at h
          simp [unmarshalFields, h.1, ih, normFields, he]
        · simp only [he] at h
          obtain ⟨⟨j, hj1, hj2⟩, _⟩ := h
          have a := rt t v j hokt hj1
          simp [unmarshalFields, hj2, a, ih, normFields, he]
end

#print axioms rt
