/-! Spike: Go-style JSON string escaping and unescaping round trip (BMP escapes; raw pass-through otherwise). -/
namespace Str

def hexDigit : Nat → Char
  | 0 => '0' | 1 => '1' | 2 => '2' | 3 => '3' | 4 => '4' | 5 => '5' | 6 => '6' | 7 => '7'
  | 8 => '8' | 9 => '9' | 10 => 'a' | 11 => 'b' | 12 => 'c' | 13 => 'd' | 14 => 'e' | _ => 'f'
def hexVal : Char → Option Nat
  | '0' => some 0 | '1' => some 1 | '2' => some 2 | '3' => some 3 | '4' => some 4 | '5' => some 5
  | '6' => some 6 | '7' => some 7 | '8' => some 8 | '9' => some 9
  | 'a' => some 10 | 'b' => some 11 | 'c' => some 12 | 'd' => some 13 | 'e' => some 14 | 'f' => some 15
  | 'A' => some 10 | 'B' => some 11 | 'C' => some 12 | 'D' => some 13 | 'E' => some 14 | 'F' => some 15
  | _ => none

theorem hexVal_hexDigit : ∀ d : Fin 16, hexVal (hexDigit d.1) = some d.1 := by decide

/-- which characters Go's encoder (HTML-escaping on) writes as `\uXXXX` -/
def needsU (c : Char) : Bool :=
  c.toNat < 0x20 || c = '<' || c = '>' || c = '&' || c.toNat = 0x2028 || c.toNat = 0x2029

def escChar (c : Char) : List Char :=
  if c = '"' then ['\\', '"'] else if c = '\\' then ['\\', '\\']
  else if c = '\n' then ['\\', 'n'] else if c = '\r' then ['\\', 'r'] else if c = '\t' then ['\\', 't']
  else if c = '\x08' then ['\\', 'b'] else if c = '\x0c' then ['\\', 'f']
  else if needsU c then
    ['\\', 'u', hexDigit (c.toNat / 4096 % 16), hexDigit (c.toNat / 256 % 16),
                hexDigit (c.toNat / 16 % 16), hexDigit (c.toNat % 16)]
  else [c]

def escape (s : List Char) : List Char := s.flatMap escChar

def hex4 (a b c d : Char) : Option Nat := do
  let x ← hexVal a; let y ← hexVal b; let z ← hexVal c; let w ← hexVal d
  pure (x * 4096 + y * 256 + z * 16 + w)

/-- body of a JSON string up to and including the closing quote; returns decoded text and the rest -/
def parseBody : List Char → Option (List Char × List Char)
  | [] => none
  | c :: r =>
    if c = '"' then some ([], r)
    else if c = '\\' then
      match r with
      | 'u' :: a :: b :: c' :: d :: r' =>
        (match hex4 a b c' d, parseBody r' with
         | some n, some (s, rest) => some (Char.ofNat n :: s, rest)
         | _, _ => none)
      | e :: r' =>
        (match (if e = '"' then some '"' else if e = '\\' then some '\\' else if e = '/' then some '/'
                else if e = 'n' then some '\n' else if e = 'r' then some '\r' else if e = 't' then some '\t'
                else if e = 'b' then some '\x08' else if e = 'f' then some '\x0c' else none), parseBody r' with
         | some x, some (s, rest) => some (x :: s, rest)
         | _, _ => none)
      | [] => none
    else if c.toNat < 0x20 then none
    else match parseBody r with
      | some (s, rest) => some (c :: s, rest)
      | none => none

theorem hex4_roundtrip (n : Nat) (h : n < 65536) :
    hex4 (hexDigit (n / 4096 % 16)) (hexDigit (n / 256 % 16)) (hexDigit (n / 16 % 16)) (hexDigit (n % 16)) = some n := by
  have a := hexVal_hexDigit ⟨n / 4096 % 16, by omega⟩
  have b := hexVal_hexDigit ⟨n / 256 % 16, by omega⟩
  have c := hexVal_hexDigit ⟨n / 16 % 16, by omega⟩
  have d := hexVal_hexDigit ⟨n % 16, by omega⟩
  simp only at a b c d
  simp only [hex4, a, b, c, d, Option.bind_eq_bind, Option.bind_some, Option.pure_def]
  congr 1; omega

theorem needsU_lt (c : Char) (h : needsU c = true) : c.toNat < 65536 := by
  simp only [needsU, Bool.or_eq_true, decide_eq_true_eq] at h
  rcases h with ((((h | h) | h) | h) | h) | h
  · omega
  · subst h; decide
  · subst h; decide
  · subst h; decide
  · omega
  · omega

/-- one step: the escape of `c` followed by anything parses to `c` followed by the parse of the rest -/
theorem parseBody_escChar (c : Char) (tail : List Char) (s rest : List Char)
    (ih : parseBody tail = some (s, rest)) :
    parseBody (escChar c ++ tail) = some (c :: s, rest) := by
  unfold escChar
  by_cases h1 : c = '"'
  · subst h1; simp [parseBody, ih]
  by_cases h2 : c = '\\'
  · subst h2; simp [parseBody, ih]
  by_cases h3 : c = '\n'
  · subst h3; simp [parseBody, ih]
  by_cases h4 : c = '\r'
  · subst h4; simp [parseBody, ih]
  by_cases h5 : c = '\t'
  · subst h5; simp [parseBody, ih]
  by_cases h6 : c = '\x08'
  · subst h6; simp [parseBody, ih]
  by_cases h7 : c = '\x0c'
  · subst h7; simp [parseBody, ih]
  simp only [h1, h2, h3, h4, h5, h6, h7, if_false]
  by_cases hu : needsU c = true
  · have hlt := needsU_lt c hu
    simp only [hu, if_true, List.cons_append, List.nil_append]
    simp only [parseBody, hex4_roundtrip c.toNat hlt, ih]
    simp [Char.ofNat_toNat]
  · have hu' : needsU c = false := by simpa using hu
    have hge : ¬ c.toNat < 0x20 := by
      intro hlt; simp [needsU, hlt] at hu'
    simp only [hu', List.cons_append, List.nil_append]
    unfold parseBody
    simp [h1, h2, hge, ih]

/-- JSON string layer: parse ∘ render = id, for every string (of Unicode scalar values) -/
theorem parse_escape (s rest : List Char) : parseBody (escape s ++ '"' :: rest) = some (s, rest) := by
  induction s with
  | nil => simp only [escape, List.flatMap_nil, List.nil_append]; unfold parseBody; simp
  | cons c cs ih =>
    have : escape (c :: cs) ++ '"' :: rest = escChar c ++ (escape cs ++ '"' :: rest) := by
      simp [escape, List.flatMap_cons, List.append_assoc]
    rw [this]
    exact parseBody_escChar c _ cs rest ih

#print axioms parse_escape
end Str
