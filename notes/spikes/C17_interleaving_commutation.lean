/-! Spike for C17: steps with disjoint footprints commute; every interleaving of two threads whose
    steps are pairwise independent ends in the same heap as running them one after the other. -/
namespace Conc
variable {Loc Val : Type}

abbrev Heap (Loc Val : Type) := Loc → Val

/-- a micro-step: a heap transformer with a declared read set `R` and write set `W` -/
structure Step (Loc Val : Type) where
  R : Loc → Prop
  W : Loc → Prop
  f : Heap Loc Val → Heap Loc Val
  /-- writes only inside W -/
  frame : ∀ h l, ¬ W l → f h l = h l
  /-- what it writes depends only on what it may read (R ∪ W) -/
  dep : ∀ h h', (∀ l, R l ∨ W l → h l = h' l) → ∀ l, W l → f h l = f h' l

/-- Bernstein independence: neither writes what the other reads or writes -/
def Indep (a b : Step Loc Val) : Prop :=
  (∀ l, a.W l → ¬ (b.R l ∨ b.W l)) ∧ (∀ l, b.W l → ¬ (a.R l ∨ a.W l))

/-- a data race between two steps = a location one writes and the other reads or writes -/
def Conflict (a b : Step Loc Val) : Prop := ∃ l, (a.W l ∧ (b.R l ∨ b.W l)) ∨ (b.W l ∧ (a.R l ∨ a.W l))

theorem indep_no_conflict (a b : Step Loc Val) (h : Indep a b) : ¬ Conflict a b := by
  rintro ⟨l, ⟨hw, hr⟩ | ⟨hw, hr⟩⟩
  · exact h.1 l hw hr
  · exact h.2 l hw hr

theorem indep_comm (a b : Step Loc Val) (h : Indep a b) (hp : Heap Loc Val) :
    a.f (b.f hp) = b.f (a.f hp) := by
  funext l
  by_cases ha : a.W l
  · have hb : ¬ b.W l := fun hb => h.1 l ha (Or.inr hb)
    rw [b.frame (a.f hp) l hb]
    apply a.dep (b.f hp) hp _ l ha
    intro l' hl'
    apply b.frame hp l'
    intro hbw
    exact h.2 l' hbw hl'
  · rw [a.frame (b.f hp) l ha]
    by_cases hb : b.W l
    · symm
      apply b.dep (a.f hp) hp _ l hb
      intro l' hl'
      apply a.frame hp l'
      intro haw
      exact h.1 l' haw hl'
    · rw [b.frame hp l hb, b.frame (a.f hp) l hb, a.frame hp l ha]

def exec (s : List (Step Loc Val)) (h : Heap Loc Val) : Heap Loc Val := s.foldl (fun h st => st.f h) h

theorem exec_append (s t : List (Step Loc Val)) (h : Heap Loc Val) : exec (s ++ t) h = exec t (exec s h) := by
  simp [exec, List.foldl_append]

/-- a step independent of every step of `t` can be moved across `t` -/
theorem exec_comm_step (b : Step Loc Val) (t : List (Step Loc Val)) (hi : ∀ a ∈ t, Indep a b) (h : Heap Loc Val) :
    exec t (b.f h) = b.f (exec t h) := by
  induction t generalizing h with
  | nil => rfl
  | cons a t ih =>
    have hab : Indep a b := hi a (by simp)
    have : exec (a :: t) (b.f h) = exec t (a.f (b.f h)) := rfl
    rw [this, indep_comm a b hab h, ih (fun x hx => hi x (by simp [hx]))]
    rfl

/-- all interleavings of two threads (program order kept inside each) -/
inductive Interleave : List (Step Loc Val) → List (Step Loc Val) → List (Step Loc Val) → Prop
  | nil : Interleave [] [] []
  | left {a t1 t2 s} : Interleave t1 t2 s → Interleave (a :: t1) t2 (a :: s)
  | right {b t1 t2 s} : Interleave t1 t2 s → Interleave t1 (b :: t2) (b :: s)

/-- C17 core: if every step of thread 1 is independent of every step of thread 2, EVERY interleaving
    produces the heap of the sequential run (thread 1 then thread 2) -/
theorem interleave_seq_equiv (t1 t2 s : List (Step Loc Val)) (hil : Interleave t1 t2 s)
    (hind : ∀ a ∈ t1, ∀ b ∈ t2, Indep a b) (h : Heap Loc Val) :
    exec s h = exec (t1 ++ t2) h := by
  induction hil generalizing h with
  | nil => rfl
  | @left a t1 t2 s _ ih =>
    have := ih (fun x hx y hy => hind x (by simp [hx]) y hy) (a.f h)
    exact this
  | @right b t1 t2 s _ ih =>
    have h1 := ih (fun x hx y hy => hind x hx y (by simp [hy])) (b.f h)
    have : exec (b :: s) h = exec s (b.f h) := rfl
    rw [this, h1, exec_append, exec_append]
    rw [exec_comm_step b t1 (fun a ha => hind a ha b (by simp)) h]
    rfl

/-- and no interleaving contains a race -/
theorem interleave_no_race (t1 t2 : List (Step Loc Val)) (hind : ∀ a ∈ t1, ∀ b ∈ t2, Indep a b) :
    ∀ a ∈ t1, ∀ b ∈ t2, ¬ Conflict a b :=
  fun a ha b hb => indep_no_conflict a b (hind a ha b hb)

#print axioms interleave_seq_equiv
end Conc
