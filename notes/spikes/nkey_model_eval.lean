/-! Spike: executable model of nkeys public-key strings (base32, CRC-16/XMODEM little-endian, prefix byte). -/
namespace NKey

def b32Val (c : Char) : Option Nat :=
  if 'A' ≤ c ∧ c ≤ 'Z' then some (c.toNat - 65)
  else if '2' ≤ c ∧ c ≤ '7' then some (c.toNat - 50 + 26)
  else none

/-- unpadded std base32: accumulate 5 bits per char, emit a byte whenever ≥ 8 bits are buffered -/
def b32Go : List Char → Nat → Nat → List Nat → Option (List Nat)
  | [], _, _, out => some out.reverse
  | c :: cs, acc, nbits, out =>
    match b32Val c with
    | none => none
    | some v =>
      let acc := acc * 32 + v
      let nbits := nbits + 5
      if nbits ≥ 8 then
        let nb := nbits - 8
        b32Go cs (acc % 2 ^ nb) nb ((acc / 2 ^ nb) :: out)
      else b32Go cs acc nbits out

def b32Decode (s : List Char) : Option (List Nat) :=
  let s := s.filter (fun c => c ≠ '\r' ∧ c ≠ '\n')      -- Go's decoder skips newlines
  if s.length % 8 ∈ [0, 2, 4, 5, 7] then b32Go s 0 0 [] else none

/-- CRC-16/XMODEM: poly 0x1021, init 0, MSB first -/
def crcByte (crc b : Nat) : Nat :=
  let x := (crc ^^^ (b * 256)) % 65536
  (List.range 8).foldl (fun x _ => if x ≥ 32768 then ((x * 2) ^^^ 0x1021) % 65536 else (x * 2) % 65536) x
def crc16 (bs : List Nat) : Nat := bs.foldl crcByte 0

inductive Role | operator | server | cluster | account | user | curve
  deriving DecidableEq, Repr

def roleOfPrefix (p : Nat) : Option Role :=
  if p = 14 * 8 then some .operator else if p = 13 * 8 then some .server else if p = 2 * 8 then some .cluster
  else if p = 0 then some .account else if p = 20 * 8 then some .user else if p = 23 * 8 then some .curve else none

/-- nkeys `decode`: base32, at least 4 bytes, checksum over everything but the last two (little-endian) -/
def decodeKey (s : List Char) : Option (List Nat) :=
  match b32Decode s with
  | none => none
  | some raw =>
    if raw.length < 4 then none else
    let body := raw.take (raw.length - 2)
    let lo := raw.getD (raw.length - 2) 0
    let hi := raw.getD (raw.length - 1) 0
    if crc16 body = lo + 256 * hi then some body else none

/-- `nkeys.IsValidPublic<Role>Key`: prefix byte masked with 248 equals the role's prefix -/
def isValidPublic (r : Role) (s : List Char) : Bool :=
  match decodeKey s with
  | some (p :: _) => roleOfPrefix (p / 8 * 8) = some r
  | _ => false

/-- `nkeys.FromPublicKey`: any public prefix (exact byte), payload of ANY length -/
def rawKey (s : List Char) : Option (List Nat) :=
  match decodeKey s with
  | some (p :: k) => if (roleOfPrefix p).isSome then some k else none
  | _ => none

#eval isValidPublic .account "AABQUEIYD4TC2NB3IJEVAV26MVWHG6UBRCHZNHNEVOZLTQGHZ3K5Y2TU".toList
#eval isValidPublic .user "UABQUEIYD4TC2NB3IJEVAV26MVWHG6UBRCHZNHNEVOZLTQGHZ3K5Z6AL".toList
#eval isValidPublic .operator "OABQUEIYD4TC2NB3IJEVAV26MVWHG6UBRCHZNHNEVOZLTQGHZ3K5YM7S".toList
#eval isValidPublic .server "NABQUEIYD4TC2NB3IJEVAV26MVWHG6UBRCHZNHNEVOZLTQGHZ3K5ZH4A".toList
#eval isValidPublic .cluster "CABQUEIYD4TC2NB3IJEVAV26MVWHG6UBRCHZNHNEVOZLTQGHZ3K5ZIRI".toList
#eval isValidPublic .curve "XABQUEIYD4TC2NB3IJEVAV26MVWHG6UBRCHZNHNEVOZLTQGHZ3K5YVDZ".toList
#eval isValidPublic .user "AABQUEIYD4TC2NB3IJEVAV26MVWHG6UBRCHZNHNEVOZLTQGHZ3K5Y2TU".toList   -- wrong role: false
#eval isValidPublic .account "AABQUEIYD4TC2NB3IJEVAV26MVWHG6UBRCHZNHNEVOZLTQGHZ3K5Y2TV".toList -- bad crc: false
#eval (rawKey "AABQUEIYD4TC2NB3IJEVAV26MVWHG6UBRCHZNHNEVOZLTQGHZ3K5Y2TU".toList).map (·.length)  -- some 32
#eval (rawKey "AABQUEIYD4TC2NB3IIKDY".toList).map (·.length)  -- some 10 (the D11 witness)
#eval [isValidPublic .account "AAAA".toList, isValidPublic .account "AAAAAAA".toList, isValidPublic .account "".toList, isValidPublic .account "AAAAAAAA".toList]
#eval (rawKey "AABQUEIYD4TC2NB3IJEVAV26MVWHG6UBRCHZNHNEVOZLTQGHZ3K5Y2TU".toList).map (·.take 4)  -- [3,10,17,24]
end NKey
