/-! Spike for C16 (second half): Go's string-pattern `HasWildCards` = "some token is `*` or the last token is `>`". -/
namespace HW

def splitOn (sep : Char) : List Char → List (List Char)
  | [] => [[]]
  | c :: cs =>
    if c = sep then [] :: splitOn sep cs
    else match splitOn sep cs with
      | t :: ts => (c :: t) :: ts
      | [] => [[c]]

theorem splitOn_ne_nil (sep : Char) (s : List Char) : splitOn sep s ≠ [] := by
  induction s with
  | nil => simp [splitOn]
  | cons c cs ih => simp only [splitOn]; split; · simp
                    · split <;> simp

/-- the separator glues two independent splits -/
theorem splitOn_append (sep : Char) (b : List Char) : ∀ a : List Char,
    splitOn sep (a ++ sep :: b) = splitOn sep a ++ splitOn sep b := by
  intro a
  induction a with
  | nil => simp [splitOn]
  | cons c cs ih =>
    by_cases h : c = sep
    · simp [splitOn, h, ih]
    · simp only [List.cons_append, splitOn, h, if_false, ih]
      cases hs : splitOn sep cs with
      | nil => exact absurd hs (splitOn_ne_nil sep cs)
      | cons t ts => simp

def isPrefixB : List Char → List Char → Bool
  | [], _ => true
  | _ :: _, [] => false
  | p :: ps, c :: cs => p = c && isPrefixB ps cs

def isInfixB (pat : List Char) : List Char → Bool
  | [] => isPrefixB pat []
  | c :: cs => isPrefixB pat (c :: cs) || isInfixB pat cs

def isSuffixB (pat s : List Char) : Bool := isPrefixB pat.reverse s.reverse

theorem isPrefixB_iff (pat s : List Char) : isPrefixB pat s = true ↔ ∃ b, s = pat ++ b := by
  induction pat generalizing s with
  | nil => simp [isPrefixB]
  | cons p ps ih =>
    cases s with
    | nil => simp [isPrefixB]
    | cons c cs =>
      simp only [isPrefixB, Bool.and_eq_true, decide_eq_true_eq, ih, List.cons_append, List.cons.injEq]
      constructor
      · rintro ⟨rfl, b, rfl⟩; exact ⟨b, rfl, rfl⟩
      · rintro ⟨b, rfl, rfl⟩; exact ⟨rfl, b, rfl⟩

theorem isInfixB_iff (pat s : List Char) : isInfixB pat s = true ↔ ∃ a b, s = a ++ pat ++ b := by
  induction s with
  | nil =>
    simp only [isInfixB, isPrefixB_iff]
    constructor
    · rintro ⟨b, hb⟩; exact ⟨[], b, by simpa using hb⟩
    · rintro ⟨a, b, h⟩
      have : a = [] ∧ pat = [] ∧ b = [] := by
        have := congrArg List.length h; simp at this
        refine ⟨List.eq_nil_of_length_eq_zero (by omega), List.eq_nil_of_length_eq_zero (by omega), List.eq_nil_of_length_eq_zero (by omega)⟩
      exact ⟨b, by simp [this.2.1, this.2.2]⟩
  | cons c cs ih =>
    simp only [isInfixB, Bool.or_eq_true, isPrefixB_iff, ih]
    constructor
    · rintro (⟨b, hb⟩ | ⟨a, b, hb⟩)
      · exact ⟨[], b, by simpa using hb⟩
      · exact ⟨c :: a, b, by simp [hb]⟩
    · rintro ⟨a, b, h⟩
      cases a with
      | nil => left; exact ⟨b, by simpa using h⟩
      | cons x xs =>
        right
        simp only [List.cons_append, List.cons.injEq] at h
        exact ⟨xs, b, h.2⟩

theorem isSuffixB_iff (pat s : List Char) : isSuffixB pat s = true ↔ ∃ a, s = a ++ pat := by
  simp only [isSuffixB, isPrefixB_iff]
  constructor
  · rintro ⟨b, hb⟩
    refine ⟨b.reverse, ?_⟩
    have := congrArg List.reverse hb
    simpa using this
  · rintro ⟨a, rfl⟩
    exact ⟨a.reverse, by simp⟩

/-- Go: `strings.HasSuffix(v, ".>") || strings.Contains(v, ".*.") || strings.HasSuffix(v, ".*") ||
         strings.HasPrefix(v, "*.") || v == "*" || v == ">"` -/
def hasWildCards (s : List Char) : Bool :=
  isSuffixB ['.', '>'] s || isInfixB ['.', '*', '.'] s || isSuffixB ['.', '*'] s ||
  isPrefixB ['*', '.'] s || s = ['*'] || s = ['>']

/-- token view -/
def hwToks (toks : List (List Char)) : Bool := toks.any (· = ['*']) || toks.getLast? = some ['>']

theorem split_star : splitOn '.' ['*'] = [['*']] := by decide
theorem split_gt : splitOn '.' ['>'] = [['>']] := by decide

theorem hw_sound (s : List Char) (h : hasWildCards s = true) : hwToks (splitOn '.' s) = true := by
  simp only [hasWildCards, Bool.or_eq_true, decide_eq_true_eq] at h
  rcases h with ((((h | h) | h) | h) | h) | h
  · obtain ⟨a, rfl⟩ := (isSuffixB_iff _ _).mp h
    have : a ++ ['.', '>'] = a ++ '.' :: ['>'] := rfl
    rw [this, splitOn_append, split_gt]
    simp [hwToks]
  · obtain ⟨a, b, rfl⟩ := (isInfixB_iff _ _).mp h
    have : a ++ ['.', '*', '.'] ++ b = a ++ '.' :: (['*'] ++ '.' :: b) := by simp
    rw [this, splitOn_append, splitOn_append, split_star]
    simp [hwToks]
  · obtain ⟨a, rfl⟩ := (isSuffixB_iff _ _).mp h
    have : a ++ ['.', '*'] = a ++ '.' :: ['*'] := rfl
    rw [this, splitOn_append, split_star]
    simp [hwToks]
  · obtain ⟨b, rfl⟩ := (isPrefixB_iff _ _).mp h
    have : ['*', '.'] ++ b = ['*'] ++ '.' :: b := rfl
    rw [this, splitOn_append, split_star]
    simp [hwToks]
  · subst h; decide
  · subst h; decide

def join (sep : Char) : List (List Char) → List Char
  | [] => []
  | [t] => t
  | t :: ts => t ++ sep :: join sep ts

theorem join_splitOn (sep : Char) (s : List Char) : join sep (splitOn sep s) = s := by
  induction s with
  | nil => simp [splitOn, join]
  | cons c cs ih =>
    simp only [splitOn]
    by_cases h : c = sep
    · simp only [h, if_true]
      cases hs : splitOn sep cs with
      | nil => exact absurd hs (splitOn_ne_nil sep cs)
      | cons t ts => rw [hs] at ih; simp [join, ih]
    · simp only [h, if_false]
      cases hs : splitOn sep cs with
      | nil => exact absurd hs (splitOn_ne_nil sep cs)
      | cons t ts =>
        rw [hs] at ih
        cases ts with
        | nil => simp [join] at ih ⊢; exact ih
        | cons u us => simp [join] at ih ⊢; exact ih

theorem join_cons_ne (sep : Char) (t : List Char) (ts : List (List Char)) (h : ts ≠ []) :
    join sep (t :: ts) = t ++ sep :: join sep ts := by
  cases ts with
  | nil => exact absurd rfl h
  | cons u us => rfl

theorem join_append (sep : Char) (x : List (List Char)) (hx : x ≠ []) : ∀ pre : List (List Char), pre ≠ [] →
    join sep (pre ++ x) = join sep pre ++ sep :: join sep x := by
  intro pre
  induction pre with
  | nil => intro h; exact absurd rfl h
  | cons t ts ih =>
    intro _
    cases ts with
    | nil =>
      have : ([t] ++ x) = t :: x := rfl
      rw [this, join_cons_ne sep t x hx]; simp [join]
    | cons u us =>
      have h1 := ih (by simp)
      have : (t :: u :: us) ++ x = t :: ((u :: us) ++ x) := rfl
      rw [this, join_cons_ne sep t _ (by simp), h1, join_cons_ne sep t (u :: us) (by simp)]
      simp [List.append_assoc]

theorem hw_complete (s : List Char) (h : hwToks (splitOn '.' s) = true) : hasWildCards s = true := by
  have hj := join_splitOn '.' s
  simp only [hwToks, Bool.or_eq_true, List.any_eq_true, decide_eq_true_eq] at h
  simp only [hasWildCards, Bool.or_eq_true, decide_eq_true_eq]
  rcases h with ⟨t, hm, rfl⟩ | hl
  · obtain ⟨pre, post, hsp⟩ := List.append_of_mem hm
    rw [hsp] at hj
    cases pre with
    | nil =>
      cases post with
      | nil => simp [join] at hj; left; right; exact hj.symm
      | cons u us =>
        simp only [List.nil_append] at hj
        rw [join_cons_ne '.' _ _ (by simp)] at hj
        left; left; right
        exact (isPrefixB_iff _ _).mpr ⟨join '.' (u :: us), by rw [← hj]; rfl⟩
    | cons p ps =>
      rw [join_append '.' (['*'] :: post) (by simp) (p :: ps) (by simp)] at hj
      cases post with
      | nil =>
        left; left; left; right
        exact (isSuffixB_iff _ _).mpr ⟨join '.' (p :: ps), by rw [← hj]; simp [join]⟩
      | cons u us =>
        have e : join '.' (['*'] :: u :: us) = ['*'] ++ '.' :: join '.' (u :: us) := rfl
        rw [e] at hj
        left; left; left; left; right
        exact (isInfixB_iff _ _).mpr ⟨join '.' (p :: ps), join '.' (u :: us), by rw [← hj]; simp⟩
  · -- last token is ">"
    have hne := splitOn_ne_nil '.' s
    obtain ⟨init, hsp⟩ : ∃ init, splitOn '.' s = init ++ [['>']] := by
      have := List.getLast?_eq_some_iff.mp hl
      obtain ⟨ys, hys⟩ := this
      exact ⟨ys, hys⟩
    rw [hsp] at hj
    cases init with
    | nil => simp [join] at hj; right; exact hj.symm
    | cons p ps =>
      rw [join_append '.' [['>']] (by simp) (p :: ps) (by simp)] at hj
      left; left; left; left; left
      exact (isSuffixB_iff _ _).mpr ⟨join '.' (p :: ps), by rw [← hj]; simp [join]⟩

/-- C16, second half: the string patterns and the token view coincide for EVERY string -/
theorem hasWildCards_iff (s : List Char) : hasWildCards s = hwToks (splitOn '.' s) := by
  cases h : hasWildCards s with
  | true => exact (hw_sound s h).symm
  | false =>
    cases h2 : hwToks (splitOn '.' s) with
    | false => rfl
    | true => rw [hw_complete s h2] at h; cases h

#print axioms hasWildCards_iff
end HW
