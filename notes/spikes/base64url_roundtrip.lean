/-! Spike: unpadded base64url encode/decode round trip over byte lists (bytes as Nat < 256). -/
namespace B64

def alphabet : List Char :=
  ['A', 'B', 'C', 'D', 'E', 'F', 'G', 'H', 'I', 'J', 'K', 'L', 'M', 'N', 'O', 'P', 'Q', 'R', 'S', 'T', 'U', 'V', 'W', 'X', 'Y', 'Z', 'a', 'b', 'c', 'd', 'e', 'f', 'g', 'h', 'i', 'j', 'k', 'l', 'm', 'n', 'o', 'p', 'q', 'r', 's', 't', 'u', 'v', 'w', 'x', 'y', 'z', '0', '1', '2', '3', '4', '5', '6', '7', '8', '9', '-', '_']

def encChar (n : Nat) : Char := alphabet.getD n 'A'

def decChar (c : Char) : Option Nat :=
  let i := alphabet.idxOf c
  if i < 64 then some i else none

theorem dec_enc : ∀ d : Fin 64, decChar (encChar d.1) = some d.1 := by decide +kernel

def encode : List Nat → List Char
  | a :: b :: c :: r =>
      encChar (a / 4) :: encChar (a % 4 * 16 + b / 16) :: encChar (b % 16 * 4 + c / 64) :: encChar (c % 64) :: encode r
  | [a, b] => [encChar (a / 4), encChar (a % 4 * 16 + b / 16), encChar (b % 16 * 4)]
  | [a] => [encChar (a / 4), encChar (a % 4 * 16)]
  | [] => []

/-- Go's non-strict decoder: trailing bits of a final partial group are ignored -/
def decode : List Char → Option (List Nat)
  | w :: x :: y :: z :: r =>
      match decChar w, decChar x, decChar y, decChar z, decode r with
      | some p, some q, some s, some t, some rest =>
          some ((p * 4 + q / 16) :: (q % 16 * 16 + s / 4) :: (s % 4 * 64 + t) :: rest)
      | _, _, _, _, _ => none
  | [w, x, y] =>
      match decChar w, decChar x, decChar y with
      | some p, some q, some s => some [p * 4 + q / 16, q % 16 * 16 + s / 4]
      | _, _, _ => none
  | [w, x] =>
      match decChar w, decChar x with
      | some p, some q => some [p * 4 + q / 16]
      | _, _ => none
  | [_] => none
  | [] => some []

theorem de (n : Nat) (h : n < 64) : decChar (encChar n) = some n := dec_enc ⟨n, h⟩

theorem roundtrip : ∀ (bs : List Nat), (∀ b ∈ bs, b < 256) → decode (encode bs) = some bs
  | [], _ => by simp [encode, decode]
  | [a], h => by
      have ha := h a (by simp)
      simp only [encode, decode, de (a / 4) (by omega), de (a % 4 * 16) (by omega)]
      congr 2; omega
  | [a, b], h => by
      have ha := h a (by simp)
      have hb := h b (by simp)
      simp only [encode, decode, de (a / 4) (by omega), de (a % 4 * 16 + b / 16) (by omega), de (b % 16 * 4) (by omega)]
      congr 2
      · omega
      · congr 1; omega
  | a :: b :: c :: r, h => by
      have ha := h a (by simp)
      have hb := h b (by simp)
      have hc := h c (by simp)
      have ih := roundtrip r (fun x hx => h x (by simp [hx]))
      simp only [encode, decode, de (a / 4) (by omega), de (a % 4 * 16 + b / 16) (by omega),
        de (b % 16 * 4 + c / 64) (by omega), de (c % 64) (by omega), ih]
      congr 2
      · omega
      · congr 1
        · omega
        · congr 1; omega

#print axioms roundtrip
end B64
