/-! Spike: `strings.Split(s, ".")` / `strings.Join` on `List Char`, and C18's `cleanSubject`. -/
namespace Split

/-- `strings.Split(s, sep)` for a one-character separator: never returns the empty list -/
def splitOn (sep : Char) : List Char → List (List Char)
  | [] => [[]]
  | c :: cs =>
    if c = sep then [] :: splitOn sep cs
    else match splitOn sep cs with
      | t :: ts => (c :: t) :: ts
      | [] => [[c]]   -- unreachable

def join (sep : Char) : List (List Char) → List Char
  | [] => []
  | [t] => t
  | t :: ts => t ++ sep :: join sep ts

theorem splitOn_ne_nil (sep : Char) (s : List Char) : splitOn sep s ≠ [] := by
  induction s with
  | nil => simp [splitOn]
  | cons c cs ih =>
    simp only [splitOn]
    split
    · simp
    · split <;> simp

theorem join_splitOn (sep : Char) (s : List Char) : join sep (splitOn sep s) = s := by
  induction s with
  | nil => simp [splitOn, join]
  | cons c cs ih =>
    simp only [splitOn]
    by_cases h : c = sep
    · simp only [h, if_true]
      cases hs : splitOn sep cs with
      | nil => exact absurd hs (splitOn_ne_nil sep cs)
      | cons t ts =>
        rw [hs] at ih
        simp [join, ih]
    · simp only [h, if_false]
      cases hs : splitOn sep cs with
      | nil => exact absurd hs (splitOn_ne_nil sep cs)
      | cons t ts =>
        rw [hs] at ih
        cases ts with
        | nil => simp [join] at ih ⊢; exact ih
        | cons u us => simp [join] at ih ⊢; exact ih

theorem splitOn_token_no_sep (sep : Char) (s : List Char) : ∀ t ∈ splitOn sep s, sep ∉ t := by
  induction s with
  | nil => intro t ht; simp [splitOn] at ht; subst ht; simp
  | cons c cs ih =>
    intro t ht
    simp only [splitOn] at ht
    by_cases h : c = sep
    · simp only [h, if_true, List.mem_cons] at ht
      rcases ht with rfl | ht
      · simp
      · exact ih t ht
    · simp only [h, if_false] at ht
      cases hs : splitOn sep cs with
      | nil => exact absurd hs (splitOn_ne_nil sep cs)
      | cons u us =>
        rw [hs] at ht ih
        simp only [List.mem_cons] at ht
        rcases ht with rfl | ht
        · intro hm
          simp only [List.mem_cons] at hm
          rcases hm with hm | hm
          · exact h hm.symm
          · exact ih u (by simp) hm
        · exact ih t (by simp [ht])

theorem splitOn_no_sep (sep : Char) : ∀ (t : List Char), sep ∉ t → splitOn sep t = [t] := by
  intro t
  induction t with
  | nil => intro _; rfl
  | cons c cs ih =>
    intro h
    have hc : c ≠ sep := fun e => h (by simp [e])
    have hcs : sep ∉ cs := fun hm => h (by simp [hm])
    simp [splitOn, hc, ih hcs]

theorem splitOn_append_sep (sep : Char) (rest : List Char) : ∀ (t : List Char), sep ∉ t →
    splitOn sep (t ++ sep :: rest) = t :: splitOn sep rest := by
  intro t
  induction t with
  | nil => intro _; simp [splitOn]
  | cons c cs ih =>
    intro h
    have hc : c ≠ sep := fun e => h (by simp [e])
    have hcs : sep ∉ cs := fun hm => h (by simp [hm])
    simp [splitOn, hc, ih hcs]

theorem splitOn_join (sep : Char) : ∀ (ts : List (List Char)), ts ≠ [] → (∀ t ∈ ts, sep ∉ t) →
    splitOn sep (join sep ts) = ts := by
  intro ts
  induction ts with
  | nil => intro h; exact absurd rfl h
  | cons t ts ih =>
    intro _ hsep
    have ht : sep ∉ t := hsep t (by simp)
    cases ts with
    | nil => simp [join, splitOn_no_sep sep t ht]
    | cons u us =>
      have := ih (by simp) (fun x hx => hsep x (by simp [hx]))
      simp only [join] at this ⊢
      rw [splitOn_append_sep sep _ t ht, this]

-- ---------- C18: cleanSubject ----------
def isWild (t : List Char) : Bool := t = ['*'] || t = ['>']

/-- Go `cleanSubject` on the token list (before the `cleaned == ""` fallback) -/
def cleanToks : List (List Char) → Option (List (List Char))   -- none = no wildcard found
  | [] => none
  | t :: ts => if isWild t then some [] else (cleanToks ts).map (t :: ·)

def cleanSubject (s : List Char) : List Char :=
  let toks := splitOn '.' s
  match toks with
  | [] => s
  | t :: _ =>
    if isWild t then ['_']
    else match cleanToks toks with
      | none => s
      | some pre => let c := join '.' pre; if c = [] then s else c

/-- spec: the tokens before the first wildcard -/
theorem cleanToks_spec : ∀ (toks : List (List Char)) (pre : List (List Char)), cleanToks toks = some pre →
    pre = toks.takeWhile (fun t => !isWild t) ∧ ∃ w rest, toks = pre ++ w :: rest ∧ isWild w = true := by
  intro toks
  induction toks with
  | nil => intro pre h; simp [cleanToks] at h
  | cons t ts ih =>
    intro pre h
    simp only [cleanToks] at h
    by_cases hw : isWild t = true
    · simp only [hw, if_true, Option.some.injEq] at h
      subst h
      exact ⟨by simp [List.takeWhile, hw], t, ts, by simp, hw⟩
    · simp only [hw, if_false, Option.map_eq_some_iff, Bool.false_eq_true] at h
      obtain ⟨p, hp, rfl⟩ := h
      obtain ⟨h1, w, rest, h2, h3⟩ := ih p hp
      have hw' : isWild t = false := by simpa using hw
      refine ⟨by simp [List.takeWhile, hw', ← h1], w, rest, by simp [h2], h3⟩

theorem cleanToks_none : ∀ (toks : List (List Char)), cleanToks toks = none ↔ ∀ t ∈ toks, isWild t = false := by
  intro toks
  induction toks with
  | nil => simp [cleanToks]
  | cons t ts ih =>
    simp only [cleanToks]
    by_cases hw : isWild t = true
    · simp [hw]
    · have hw' : isWild t = false := by simpa using hw
      simp [hw', ih]

/-- a subject without wildcard tokens is its own identity prefix -/
theorem cleanSubject_literal (s : List Char) (h : ∀ t ∈ splitOn '.' s, isWild t = false) : cleanSubject s = s := by
  simp only [cleanSubject]
  cases hs : splitOn '.' s with
  | nil => rfl
  | cons t ts =>
    rw [hs] at h
    have ht : isWild t = false := h t (by simp)
    simp only [ht, Bool.false_eq_true, if_false]
    rw [(cleanToks_none (t :: ts)).mpr h]

/-- a leading wildcard maps to the fixed placeholder -/
theorem cleanSubject_leading (s : List Char) (t : List Char) (ts) (hs : splitOn '.' s = t :: ts) (hw : isWild t = true) :
    cleanSubject s = ['_'] := by
  simp [cleanSubject, hs, hw]

#print axioms splitOn_join
#print axioms cleanToks_spec
end Split
