/-! Spike for C15: the hand matcher for `userConfigRE` recovers the token from a decorated block. -/
namespace C15

def isSpace (c : Char) : Bool := c = ' ' || c = '\t' || c = '\n' || c = '\x0c' || c = '\r'
def isTok (c : Char) : Bool := c.isAlphanum || c = '_' || c = '-' || c = '.' || c = '='
def isDash (c : Char) : Bool := c = '-'
def notNL (c : Char) : Bool := c ≠ '\n'

/-- `-{3,}.*-{3,}` matched against a whole line (no newline inside): ≥ 6 chars, 3 dashes at each end -/
def dashX (x : List Char) : Bool :=
  decide (x.length ≥ 6) && (x.take 3).all isDash && (x.reverse.take 3).all isDash

def dashLine (r : List Char) : Bool := dashX r || (r.getLast? = some '\r' && dashX r.dropLast)

/-- split at the first newline -/
def splitNL (l : List Char) : Option (List Char × List Char) :=
  match l.dropWhile notNL with
  | [] => none
  | _ :: r => some (l.takeWhile notNL, r)

def matchHere (l : List Char) : Option (List Char × List Char) :=
  match splitNL (l.dropWhile isSpace) with
  | none => none
  | some (opn, l2) =>
    if dashLine opn = false then none else
    let cap := l2.takeWhile isTok
    if cap = [] then none else
    let l4 := match l2.dropWhile isTok with | '\r' :: r => r | r => r
    match l4 with
    | '\n' :: l5 =>
      (match splitNL l5 with
       | some (cls, l6) => if dashLine cls then some (cap, l6) else none
       | none => if dashX l5 then some (cap, []) else none)
    | _ => none

theorem splitNL_line (x rest : List Char) (hx : ∀ c ∈ x, notNL c = true) :
    splitNL (x ++ '\n' :: rest) = some (x, rest) := by
  have h1 : (x ++ '\n' :: rest).dropWhile notNL = '\n' :: rest := by
    rw [List.dropWhile_append_of_pos hx]; simp [List.dropWhile, notNL]
  have h2 : (x ++ '\n' :: rest).takeWhile notNL = x := by
    rw [List.takeWhile_append_of_pos hx]; simp [List.takeWhile, notNL]
  simp [splitNL, h1, h2]

theorem dashX_head {x : List Char} (h : dashX x = true) : ∃ r, x = '-' :: r := by
  simp only [dashX, Bool.and_eq_true, decide_eq_true_eq] at h
  obtain ⟨⟨hl, ht⟩, _⟩ := h
  match x, hl, ht with
  | a :: r, _, ht =>
    simp [List.take, isDash] at ht
    exact ⟨r, by rw [ht.1]⟩

/-- C15 core (LF rendering): a decorated block yields exactly the token, and the scan resumes after the block -/
theorem matchHere_block (opn cls tok rest : List Char)
    (ho : dashX opn = true) (hc : dashX cls = true)
    (hon : ∀ c ∈ opn, notNL c = true) (hcn : ∀ c ∈ cls, notNL c = true)
    (htok : ∀ c ∈ tok, isTok c = true) (hne : tok ≠ []) :
    matchHere (opn ++ '\n' :: (tok ++ '\n' :: (cls ++ '\n' :: rest))) = some (tok, rest) := by
  obtain ⟨o', ho'⟩ := dashX_head ho
  have hsp : (opn ++ '\n' :: (tok ++ '\n' :: (cls ++ '\n' :: rest))).dropWhile isSpace
      = opn ++ '\n' :: (tok ++ '\n' :: (cls ++ '\n' :: rest)) := by
    subst ho'; simp [List.dropWhile, isSpace]
  have htw : (tok ++ '\n' :: (cls ++ '\n' :: rest)).takeWhile isTok = tok := by
    rw [List.takeWhile_append_of_pos htok]; simp [List.takeWhile, isTok, Char.isAlphanum, Char.isAlpha, Char.isUpper, Char.isLower, Char.isDigit]
  have hdw : (tok ++ '\n' :: (cls ++ '\n' :: rest)).dropWhile isTok = '\n' :: (cls ++ '\n' :: rest) := by
    rw [List.dropWhile_append_of_pos htok]; simp [List.dropWhile, isTok, Char.isAlphanum, Char.isAlpha, Char.isUpper, Char.isLower, Char.isDigit]
  simp only [matchHere, hsp, splitNL_line opn _ hon]
  have hdl : dashLine opn = true := by simp [dashLine, ho]
  have hdc : dashLine cls = true := by simp [dashLine, hc]
  simp only [hdl, htw, hdw, hne, if_false, Bool.true_eq_false]
  simp [splitNL_line cls rest hcn, hdc]

#print axioms matchHere_block
end C15
