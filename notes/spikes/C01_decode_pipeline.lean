/-! Spike for C01/C02/C05: the decode pipeline returns claims only through the header gate, the
    verify-right-slice-with-issuer-key branch and the role gate. Leaves are parameters. -/
namespace Dec01

abbrev Str := List Char
abbrev Bytes := List Nat

def splitDots : Str → List Str
  | [] => [[]]
  | c :: cs => if c = '.' then [] :: splitDots cs
               else match splitDots cs with | t :: ts => (c :: t) :: ts | [] => [[c]]

structure Hdr where
  typ : Str
  alg : Str

inductive Kind | operator | account | user | activation | authReq | authResp | generic
  deriving DecidableEq

structure Claims (β : Type) where
  kind : Kind
  issuer : Str
  body : β

structure Env (β : Type) where
  b64 : Str → Option Bytes
  parseHeader : Bytes → Option Hdr
  headerValid : Hdr → Bool
  loadClaims : Bytes → Option (Int × Claims β)   -- declared version (−1 for generic) and the claims
  rawKey : Str → Option Bytes                     -- nkeys.FromPublicKey
  verify : Bytes → Bytes → Bytes → Bool           -- Ed25519
  roleOK : Claims β → Bool                        -- ExpectedPrefixes gate
  utf8 : Str → Bytes

inductive Layout | v1 | v2 deriving DecidableEq

def algOld : Str := "ed25519".toList

/-- which text the signature must cover (repaired D1: generic kinds follow the header algorithm) -/
def layoutOf {β} (hdr : Hdr) (ver : Int) (c : Claims β) : Layout :=
  if c.kind = .generic then (if hdr.alg = algOld then .v1 else .v2)
  else if ver ≤ 1 then .v1 else .v2

def signedText {β} (env : Env β) (l : Layout) (h p : Str) : Bytes :=
  match l with
  | .v1 => env.utf8 p
  | .v2 => env.utf8 (h ++ '.' :: p)

def decode {β} (env : Env β) (tok : Str) : Option (Claims β) :=
  match splitDots tok with
  | [h, p, s] =>
    match env.b64 h with
    | none => none
    | some hb =>
    match env.parseHeader hb with
    | none => none
    | some hdr =>
    if env.headerValid hdr = false then none else
    match env.b64 p with
    | none => none
    | some data =>
    match env.loadClaims data with
    | none => none
    | some (ver, c) =>
    match env.b64 s with
    | none => none
    | some sig =>
    match env.rawKey c.issuer with
    | none => none
    | some pk =>
    if pk.length ≠ 32 then none else                                   -- repaired D11
    if env.verify pk (signedText env (layoutOf hdr ver c) h p) sig = false then none else
    if env.roleOK c = false then none else some c
  | _ => none

/-- C01 + C02 + header part of C05, for every token string and every instantiation of the leaves -/
theorem decode_authentic {β} (env : Env β) (tok : Str) (c : Claims β) (hd : decode env tok = some c) :
    ∃ h p s hb hdr data ver sig pk,
      splitDots tok = [h, p, s] ∧
      env.b64 h = some hb ∧ env.parseHeader hb = some hdr ∧ env.headerValid hdr = true ∧
      env.b64 p = some data ∧ env.loadClaims data = some (ver, c) ∧
      env.b64 s = some sig ∧ env.rawKey c.issuer = some pk ∧ pk.length = 32 ∧
      env.verify pk (signedText env (layoutOf hdr ver c) h p) sig = true ∧
      env.roleOK c = true := by
  unfold decode at hd
  split at hd
  · rename_i h p s hsp
    split at hd; · cases hd
    rename_i hb hhb
    split at hd; · cases hd
    rename_i hdr hhdr
    split at hd; · cases hd
    rename_i hv
    split at hd; · cases hd
    rename_i data hdata
    split at hd; · cases hd
    rename_i ver c' hload
    split at hd; · cases hd
    rename_i sig hsig
    split at hd; · cases hd
    rename_i pk hpk
    split at hd; · cases hd
    rename_i hlen
    split at hd; · cases hd
    rename_i hver
    split at hd; · cases hd
    rename_i hrole
    cases hd
    exact ⟨h, p, s, hb, hdr, data, ver, sig, pk, hsp, hhb, hhdr, by simpa using hv, hdata, hload, hsig, hpk,
      by simpa using hlen, by simpa using hver, by simpa using hrole⟩
  · cases hd

/-- a signature valid only for the other layout is never accepted -/
theorem no_cross_layout {β} (env : Env β) (tok : Str) (c : Claims β) (hd : decode env tok = some c) :
    ∃ h p s hdr ver sig pk, splitDots tok = [h, p, s] ∧ env.b64 s = some sig ∧ env.rawKey c.issuer = some pk ∧
      (layoutOf hdr ver c = .v2 → env.verify pk (env.utf8 (h ++ '.' :: p)) sig = true) ∧
      (layoutOf hdr ver c = .v1 → env.verify pk (env.utf8 p) sig = true) := by
  obtain ⟨h, p, s, hb, hdr, data, ver, sig, pk, h1, _, _, _, _, _, h7, h8, _, h10, _⟩ := decode_authentic env tok c hd
  refine ⟨h, p, s, hdr, ver, sig, pk, h1, h7, h8, ?_, ?_⟩
  · intro hl; rw [hl] at h10; exact h10
  · intro hl; rw [hl] at h10; exact h10

/-- the result depends on the signature segment only through its decoded bytes (base64 malleability is harmless) -/
theorem sig_segment_only_via_bytes {β} (env : Env β) (h p s s' : Str)
    (hs : env.b64 s = env.b64 s') (hd1 : '.' ∉ s) (hd2 : '.' ∉ s')
    (hsp : ∀ x, '.' ∉ x → splitDots (h ++ '.' :: (p ++ '.' :: x)) = [h, p, x]) :
    decode env (h ++ '.' :: (p ++ '.' :: s)) = decode env (h ++ '.' :: (p ++ '.' :: s')) := by
  unfold decode
  rw [hsp s hd1, hsp s' hd2]
  simp only [hs]

#print axioms decode_authentic
end Dec01
