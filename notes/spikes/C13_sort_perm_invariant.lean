/-! Spike for C13: sorting a Go map's entries by key makes the output independent of iteration order. -/
namespace C13
open List

variable {K V : Type} (le : K → K → Bool)
  (trans : ∀ a b c : K, le a b → le b c → le a c)
  (total : ∀ a b : K, le a b || le b a)
  (antisymm : ∀ a b : K, le a b → le b a → a = b)

/-- entries of a Go map in whatever order the runtime iterates; the serialiser sorts by key -/
def sortEntries (l : List (K × V)) : List (K × V) := l.mergeSort (fun p q => le p.1 q.1)

omit le in
theorem entry_unique : ∀ (l : List (K × V)), (l.map (·.1)).Nodup → ∀ a b, a ∈ l → b ∈ l → a.1 = b.1 → a = b := by
  intro l
  induction l with
  | nil => intro _ a b ha; cases ha
  | cons x r ih =>
    intro hnd a b ha' hb' hk
    simp only [map_cons, nodup_cons, mem_map, not_exists, not_and] at hnd
    simp only [mem_cons] at ha' hb'
    rcases ha' with rfl | ha' <;> rcases hb' with rfl | hb'
    · rfl
    · exact absurd hk.symm (hnd.1 b hb')
    · exact absurd hk (hnd.1 a ha')
    · exact ih hnd.2 a b ha' hb' hk

include trans total antisymm in
/-- C13 core: any two iteration orders of the same map (distinct keys) serialise identically -/
theorem sortEntries_perm_invariant (l l' : List (K × V)) (hp : l ~ l') (hnd : (l.map (·.1)).Nodup) :
    sortEntries le l = sortEntries le l' := by
  unfold sortEntries
  have tr : ∀ a b c : K × V, (fun p q : K × V => le p.1 q.1) a b → (fun p q : K × V => le p.1 q.1) b c →
      (fun p q : K × V => le p.1 q.1) a c := fun a b c => trans a.1 b.1 c.1
  have tot : ∀ a b : K × V, ((fun p q : K × V => le p.1 q.1) a b || (fun p q : K × V => le p.1 q.1) b a) = true :=
    fun a b => total a.1 b.1
  have s1 := pairwise_mergeSort tr tot l
  have s2 := pairwise_mergeSort tr tot l'
  have p1 := mergeSort_perm l (fun p q => le p.1 q.1)
  have p2 := mergeSort_perm l' (fun p q => le p.1 q.1)
  have pp : mergeSort l (fun p q => le p.1 q.1) ~ mergeSort l' (fun p q => le p.1 q.1) :=
    p1.trans (hp.trans p2.symm)
  refine Perm.eq_of_pairwise (le := fun p q => le p.1 q.1 = true) ?_ s1 s2 pp
  intro a b ha hb hab hba
  have hk : a.1 = b.1 := antisymm a.1 b.1 hab hba
  -- same key + distinct keys in l ⇒ same entry
  have ha' : a ∈ l := p1.subset ha
  have hb' : b ∈ l := (hp.symm.subset (p2.subset hb))
  exact entry_unique l hnd a b ha' hb' hk

#print axioms sortEntries_perm_invariant
end C13
