/-! Spike: structural part of the JSON text layer. `parse (render j ++ rest) = (j, rest)` for compact
    (Go-style, no whitespace) rendering, with the number and string leaves abstracted by their own
    round-trip laws (proved separately in json_decimal_roundtrip / json_string_roundtrip). -/
namespace JStruct

inductive Json where
  | null | bool (b : Bool) | num (n : Int) | str (s : List Char)
  | arr (l : List Json) | obj (kv : List (List Char × Json))

/-- what may follow a value inside rendered JSON -/
def Term (r : List Char) : Prop := r = [] ∨ ∃ t, r = ',' :: t ∨ r = ']' :: t ∨ r = '}' :: t

def isNumStart (c : Char) : Bool := c = '-' || c = '0' || c = '1' || c = '2' || c = '3' || c = '4' ||
  c = '5' || c = '6' || c = '7' || c = '8' || c = '9'

structure Leaves where
  rInt : Int → List Char
  pInt : List Char → Option (Int × List Char)
  esc : List Char → List Char
  pBody : List Char → Option (List Char × List Char)
  int_rt : ∀ n rest, Term rest → pInt (rInt n ++ rest) = some (n, rest)
  int_start : ∀ n, ∃ c r, rInt n = c :: r ∧ isNumStart c = true
  str_rt : ∀ s rest, pBody (esc s ++ '"' :: rest) = some (s, rest)

variable (L : Leaves)

mutual
def render : Json → List Char
  | .null => ['n','u','l','l']
  | .bool true => ['t','r','u','e']
  | .bool false => ['f','a','l','s','e']
  | .num n => L.rInt n
  | .str s => '"' :: (L.esc s ++ ['"'])
  | .arr [] => ['[', ']']
  | .arr (j :: js) => '[' :: (render j ++ renderTail js)
  | .obj [] => ['{', '}']
  | .obj ((k, j) :: kv) => '{' :: ('"' :: (L.esc k ++ '"' :: ':' :: (render j ++ renderMembers kv)))
/-- the rest of an array after its first element, including the closing bracket -/
def renderTail : List Json → List Char
  | [] => [']']
  | j :: js => ',' :: (render j ++ renderTail js)
def renderMembers : List (List Char × Json) → List Char
  | [] => ['}']
  | (k, j) :: kv => ',' :: '"' :: (L.esc k ++ '"' :: ':' :: (render j ++ renderMembers kv))
end

mutual
def parseValue : Nat → List Char → Option (Json × List Char)
  | 0, _ => none
  | _, [] => none
  | f+1, c :: r =>
    if c = 'n' then (match r with | 'u'::'l'::'l'::r' => some (.null, r') | _ => none)
    else if c = 't' then (match r with | 'r'::'u'::'e'::r' => some (.bool true, r') | _ => none)
    else if c = 'f' then (match r with | 'a'::'l'::'s'::'e'::r' => some (.bool false, r') | _ => none)
    else if c = '"' then (match L.pBody r with | some (s, r') => some (.str s, r') | none => none)
    else if c = '[' then
      (match r with
       | ']' :: r' => some (.arr [], r')
       | _ => match parseValue f r with
              | some (j, r1) => (match parseTail f r1 with
                                 | some (js, r2) => some (.arr (j :: js), r2)
                                 | none => none)
              | none => none)
    else if c = '{' then
      (match r with
       | '}' :: r' => some (.obj [], r')
       | '"' :: r0 => (match L.pBody r0 with
           | some (k, ':' :: r1) => (match parseValue f r1 with
               | some (j, r2) => (match parseMembers f r2 with
                                  | some (kv, r3) => some (.obj ((k, j) :: kv), r3)
                                  | none => none)
               | none => none)
           | _ => none)
       | _ => none)
    else if isNumStart c then (match L.pInt (c :: r) with | some (n, r') => some (.num n, r') | none => none)
    else none
def parseTail : Nat → List Char → Option (List Json × List Char)
  | 0, _ => none
  | f+1, input =>
    match input with
    | ']' :: r => some ([], r)
    | ',' :: r => (match parseValue f r with
                   | some (j, r1) => (match parseTail f r1 with
                                      | some (js, r2) => some (j :: js, r2)
                                      | none => none)
                   | none => none)
    | _ => none
def parseMembers : Nat → List Char → Option (List (List Char × Json) × List Char)
  | 0, _ => none
  | f+1, input =>
    match input with
    | '}' :: r => some ([], r)
    | ',' :: '"' :: r0 => (match L.pBody r0 with
        | some (k, ':' :: r1) => (match parseValue f r1 with
            | some (j, r2) => (match parseMembers f r2 with
                               | some (kv, r3) => some ((k, j) :: kv, r3)
                               | none => none)
            | none => none)
        | _ => none)
    | _ => none
end

mutual
def size : Json → Nat
  | .arr l => 1 + sizeList l
  | .obj kv => 1 + sizeMembers kv
  | _ => 1
def sizeList : List Json → Nat
  | [] => 1
  | j :: js => 1 + size j + sizeList js
def sizeMembers : List (List Char × Json) → Nat
  | [] => 1
  | (_, j) :: kv => 1 + size j + sizeMembers kv
end

theorem term_tail (js : List Json) (rest : List Char) : Term (renderTail L js ++ rest) := by
  cases js with
  | nil => exact Or.inr ⟨rest, Or.inr (Or.inl (by simp [renderTail]))⟩
  | cons j js => exact Or.inr ⟨render L j ++ renderTail L js ++ rest, Or.inl (by simp [renderTail, List.append_assoc])⟩

theorem term_members (kv : List (List Char × Json)) (rest : List Char) : Term (renderMembers L kv ++ rest) := by
  cases kv with
  | nil => exact Or.inr ⟨rest, Or.inr (Or.inr (by simp [renderMembers]))⟩
  | cons p kv => obtain ⟨k, j⟩ := p; exact Or.inr ⟨'"' :: (L.esc k ++ '"' :: ':' :: (render L j ++ renderMembers L kv)) ++ rest, Or.inl (by simp [renderMembers, List.append_assoc])⟩

theorem numStart_facts (c : Char) (h : isNumStart c = true) :
    c ≠ 'n' ∧ c ≠ 't' ∧ c ≠ 'f' ∧ c ≠ '"' ∧ c ≠ '[' ∧ c ≠ '{' ∧ c ≠ ']' := by
  simp only [isNumStart, Bool.or_eq_true, decide_eq_true_eq] at h
  rcases h with (((((((((h | h) | h) | h) | h) | h) | h) | h) | h) | h) | h <;> subst h <;> decide

/-- a rendered value never starts with `]` (so `[` followed by a value is not the empty array) -/
theorem render_head_ne_rbracket (j : Json) : ∃ c t, render L j = c :: t ∧ c ≠ ']' := by
  cases j with
  | null => exact ⟨'n', _, rfl, by decide⟩
  | bool b => cases b <;> simp [render]
  | num n =>
    obtain ⟨c, r, h1, h2⟩ := L.int_start n
    exact ⟨c, r, by simp [render, h1], (numStart_facts c h2).2.2.2.2.2.2⟩
  | str s => exact ⟨'"', _, rfl, by decide⟩
  | arr l => cases l <;> simp [render]
  | obj kv =>
    cases kv with
    | nil => simp [render]
    | cons p kv => obtain ⟨k, j⟩ := p; simp [render]

mutual
theorem thV : ∀ (j : Json) (f : Nat) (rest : List Char), Term rest → size j ≤ f →
    parseValue L f (render L j ++ rest) = some (j, rest)
  | .null, f, rest, _, hf => by
      obtain ⟨f', rfl⟩ : ∃ f', f = f' + 1 := ⟨f - 1, by simp [size] at hf; omega⟩
      simp [render, parseValue]
  | .bool b, f, rest, _, hf => by
      obtain ⟨f', rfl⟩ : ∃ f', f = f' + 1 := ⟨f - 1, by simp [size] at hf; omega⟩
      cases b <;> simp [render, parseValue]
  | .str s, f, rest, _, hf => by
      obtain ⟨f', rfl⟩ : ∃ f', f = f' + 1 := ⟨f - 1, by simp [size] at hf; omega⟩
      have := L.str_rt s rest
      simp [render, parseValue, List.append_assoc, this]
  | .num n, f, rest, ht, hf => by
      obtain ⟨f', rfl⟩ : ∃ f', f = f' + 1 := ⟨f - 1, by simp [size] at hf; omega⟩
      obtain ⟨c, r, h1, h2⟩ := L.int_start n
      have hn := numStart_facts c h2
      have hrt := L.int_rt n rest ht
      rw [h1] at hrt
      simp only [render, h1, List.cons_append]
      unfold parseValue
      simp [hn.1, hn.2.1, hn.2.2.1, hn.2.2.2.1, hn.2.2.2.2.1, hn.2.2.2.2.2.1, h2]
      simp only [List.cons_append] at hrt
      simp [hrt]
  | .arr [], f, rest, _, hf => by
      obtain ⟨f', rfl⟩ : ∃ f', f = f' + 1 := ⟨f - 1, by simp [size] at hf; omega⟩
      simp [render, parseValue]
  | .arr (j :: js), f, rest, ht, hf => by
      obtain ⟨f', rfl⟩ : ∃ f', f = f' + 1 := ⟨f - 1, by simp [size] at hf; omega⟩
      simp only [size, sizeList] at hf
      obtain ⟨c, t, hc, hne⟩ := render_head_ne_rbracket L j
      have h1 := thV j f' (renderTail L js ++ rest) (term_tail L js rest) (by omega)
      have h2 := thT js f' rest ht (by omega)
      simp only [render, List.cons_append, List.append_assoc]
      unfold parseValue
      simp only [show ('[' : Char) ≠ 'n' by decide, show ('[' : Char) ≠ 't' by decide, show ('[' : Char) ≠ 'f' by decide,
        show ('[' : Char) ≠ '"' by decide, if_false, if_true]
      rw [hc] at h1 ⊢
      simp only [List.cons_append] at h1 ⊢
      split
      · rename_i heq; simp at heq; exact absurd heq.1 hne
      · simp [h1, h2]
  | .obj [], f, rest, _, hf => by
      obtain ⟨f', rfl⟩ : ∃ f', f = f' + 1 := ⟨f - 1, by simp [size] at hf; omega⟩
      simp [render, parseValue]
  | .obj ((k, j) :: kv), f, rest, ht, hf => by
      obtain ⟨f', rfl⟩ : ∃ f', f = f' + 1 := ⟨f - 1, by simp [size] at hf; omega⟩
      simp only [size, sizeMembers] at hf
      have h0 := L.str_rt k (':' :: (render L j ++ (renderMembers L kv ++ rest)))
      have h1 := thV j f' (renderMembers L kv ++ rest) (term_members L kv rest) (by omega)
      have h2 := thM kv f' rest ht (by omega)
      simp only [render, List.cons_append, List.append_assoc]
      unfold parseValue
      simp [h0, h1, h2]
theorem thT : ∀ (js : List Json) (f : Nat) (rest : List Char), Term rest → sizeList js ≤ f →
    parseTail L f (renderTail L js ++ rest) = some (js, rest)
  | [], f, rest, _, hf => by
      obtain ⟨f', rfl⟩ : ∃ f', f = f' + 1 := ⟨f - 1, by simp [sizeList] at hf; omega⟩
      simp [renderTail, parseTail]
  | j :: js, f, rest, ht, hf => by
      obtain ⟨f', rfl⟩ : ∃ f', f = f' + 1 := ⟨f - 1, by simp [sizeList] at hf; omega⟩
      simp only [sizeList] at hf
      have h1 := thV j f' (renderTail L js ++ rest) (term_tail L js rest) (by omega)
      have h2 := thT js f' rest ht (by omega)
      simp [renderTail, parseTail, List.append_assoc, h1, h2]
theorem thM : ∀ (kv : List (List Char × Json)) (f : Nat) (rest : List Char), Term rest → sizeMembers kv ≤ f →
    parseMembers L f (renderMembers L kv ++ rest) = some (kv, rest)
  | [], f, rest, _, hf => by
      obtain ⟨f', rfl⟩ : ∃ f', f = f' + 1 := ⟨f - 1, by simp [sizeMembers] at hf; omega⟩
      simp [renderMembers, parseMembers]
  | (k, j) :: kv, f, rest, ht, hf => by
      obtain ⟨f', rfl⟩ : ∃ f', f = f' + 1 := ⟨f - 1, by simp [sizeMembers] at hf; omega⟩
      simp only [sizeMembers] at hf
      have h0 := L.str_rt k (':' :: (render L j ++ (renderMembers L kv ++ rest)))
      have h1 := thV j f' (renderMembers L kv ++ rest) (term_members L kv rest) (by omega)
      have h2 := thM kv f' rest ht (by omega)
      simp [renderMembers, parseMembers, List.append_assoc, h0, h1, h2]
end

/-- structural text layer: parsing the compact rendering of any JSON tree gives the tree back -/
theorem parse_render (j : Json) : parseValue L (size j) (render L j) = some (j, []) := by
  have := thV L j (size j) [] (Or.inl rfl) (Nat.le_refl _)
  simpa using this

#print axioms parse_render
end JStruct
